#!/bin/bash
# Builds the framework offline and warms the build caches (plain, sched, race).
set -e
cd "$(dirname "${BASH_SOURCE[0]}")"
export GOFLAGS=-mod=mod GOPROXY=off GOSUMDB=off GOTOOLCHAIN=local
[ -f go.sum ] || cp /repo/go.sum go.sum
./vcheck ALL quick
echo "setup done"
