#!/bin/bash
# seedvalidate.sh <PROP> <dir> <N> : phase A only (scratch worktree): suite passes with change, demo fails with / passes without
set -u
PROP=$1; DIR=$2; N=$3
export GOFLAGS=-mod=mod GOPROXY=off GOSUMDB=off GOTOOLCHAIN=local
PATCH=$DIR/change$N.diff; DEMO=$DIR/demo${N}_test.go
WT=/var/tmp/seedv-$PROP-$N
git -C /repo worktree remove --force $WT >/dev/null 2>&1
git -C /repo worktree add -q $WT HEAD || exit 3
cd $WT
git apply --check $PATCH 2>/dev/null || { echo "$PROP/$N PATCH-DOES-NOT-APPLY"; cd /; git -C /repo worktree remove --force $WT; exit 2; }
PKGDIR=${4:-}
[ -z "$PKGDIR" ] && PKGDIR=$(head -20 $DEMO | grep -iE "copy|place|put|into" | grep -oE '(registration|rotation|tls|types|protocol|net|storage/file|storage/inmem|storage/testing|util/[a-z]+)/' | head -1); PKGDIR=${PKGDIR%/}; [ -z "$PKGDIR" ] && PKGDIR=.
demo() { cp $DEMO $WT/$PKGDIR/zz_demo${N}_test.go; go test -vet=off -count=1 -timeout 10m -run "Demo|demo|C[0-9][0-9]|Seed" ./$PKGDIR/ >/tmp/seedv-$PROP-$N.$1.log 2>&1; rc=$?; rm -f $WT/$PKGDIR/zz_demo${N}_test.go; return $rc; }
demo without; W0=$?
git apply $PATCH
go build ./... >/dev/null 2>&1; B=$?
go test -vet=off -count=1 -timeout 25m ./... >/tmp/seedv-$PROP-$N.suite.log 2>&1; S=$?
demo with; W1=$?
cd /; git -C /repo worktree remove --force $WT
echo "$PROP/$N pkg=$PKGDIR demo-without-rc=$W0 build-rc=$B suite-rc=$S demo-with-rc=$W1 => $([ $W0 -eq 0 ] && [ $B -eq 0 ] && [ $S -eq 0 ] && [ $W1 -ne 0 ] && echo VALID || echo INVALID)"
