#!/usr/bin/env python3
"""Generates /verif/MANIFEST.json from the table below (kept next to the checks)."""
import json, os, sys
ROOT = os.path.dirname(os.path.dirname(os.path.abspath(__file__)))
ALL = ["C%02d" % i for i in range(1, 21)]

# id -> (level, technique, text, note, design_ref, engine)
CHECKS = {
 "C01": ("model_checking", "explicit-state BFS over the real registration API (E1) with a reference predicate evaluated on every transition",
         "Every history of operator actions and every well-signed fetch shape from the pool (up to 576 per state) is executed on a clone of the real server store; credentials may be issued only if (a), (b) or (c) of the property holds in the pre-state, unauthorized requests must leave the set of node records unchanged, and issued credentials must open only with the requesting encryption key and echo the request's nonce. Quick: reduced menus to depth 3; thorough: full menus to depth 4.",
         "Signature forgery is outside the model ('forged' = assembled from other pool members). The canonical state key drops fields no transition or oracle reads (server encryption key, bundles, state).", "6/C01", "E1"),
 "C02": ("exploration", "bounded-exhaustive capability product and request mutations (E4) through real TLS 1.3 handshakes against the real listener; explicit-state search of register/remove/connect histories (E1)",
         "Every client in the 9-dimensional capability product (20160 vectors in thorough; all with <= 3 dishonest coordinates in quick) and every single-bit flip / truncation of an honest ALPN-carried request performs a real handshake with the real InterceptingListener under a virtual clock at which one root has expired; a connection reported as authenticated must come from a client with a TLS possession proof, a chain to a currently valid root, and nonce (and client state) signed by the key of a record the property says is consulted; no fetch-protocol connection may be returned; register/remove/connect histories of two nodes run with the real dialer.",
         "Cryptography is trusted; the adversary holds other pool keys and captured signatures only.", "6/C02", "E4+E1"),
 "C03": ("exploration", "bounded-exhaustive input/configuration enumeration (E4) against a reference predicate, with a recording store",
         "Every single-bit flip and truncation of bundle and signature, 81 window placements x 49 skew pairs (exact ties and +-1ns included) under a frozen and a ticking virtual clock, 11 missing-field variants and node-created requests at boundary ages are sent through AuthorizeNode and FetchNodeCredentials in every enrollment mode; a request outside the widened window or failing authentication must be rejected with zero storage calls, a request inside it must be processed, and node-created requests carry exactly now..now+24h.",
         "Random multi-byte mutations are not claimed. Exact ties are not judged.", "6/C03", "E4"),
 "C04": ("exploration", "bounded-exhaustive configuration product (E4) through the real node-side and server-side API with certificate parsing and a final real handshake",
         "All 84 combinations of flow x storage back end (inmem, file, store-once) x storage wrapper x application state/parameters x honest retry are enrolled end to end; the response must be signed by the current root, open only with the node's encryption key, echo the nonce, carry one chain per root; every leaf is parsed (non-CA, client-auth only, node key, SKI, names, validity within the issuer's); the stored record must equal what the response was built from; five node-side substitutions must be refused; the stored credentials must yield client configurations and authenticate in a real Dial against a listener over the same store.",
         "Key values are the library's own random ones; the check is about bindings.", "6/C04", "E4"),
 "C05": ("exploration", "bounded-exhaustive configuration/input product (E4) against a reference predicate on the real GenerateServerCertificates",
         "The complete product of lookup path, ordered record list under the node id (valid record first / middle / last / absent), claimed key, nonce signer, client-state signer and skip flag (4800 calls) is executed; success must coincide with 'verification waived by the local caller or some record in the lookup result verifies nonce and client state', failures must return no response, successes must echo the submitted state.",
         "A forged signature is one by another pool key or a missing one.", "6/C05", "E4"),
 "C06": ("model_checking", "explicit-state BFS over the real token API in virtual time (E1)",
         "All histories (quick depth 4, thorough depth 6) of create / use / authorize / remove / age / tamper over two tokens and two keys run on the real code under a frozen virtual clock with exact boundary ages (lifetime-1ns, lifetime, lifetime+1ns), for storage wrapper off/on x three maximum lifetimes; a successful use must be of an issued, unconsumed token within the lifetime counted from the sealed creation instant, by a key without a record; failed uses must create no record; stored bytes must not contain the HMAC key or the token.",
         "The tie age == lifetime is left unconstrained. One known finding (downgrade edit) is listed in known_findings.json.", "6/C06", "E1"),
 "C07": ("exploration", "bounded-exhaustive enumeration of rogue-server constructions and honest configurations (E4) with the real Dial; explicit-state search of authorize/dial/advance/rotate histories in virtual time (E1)",
         "The real protocol.Dial of a registered node runs against nine hand-built TLS servers that decode the node's ALPN request (so they know this dial's nonce) and present every listed kind of wrong certificate, plus two that hold a trusted root and must be accepted; 16 honest configurations (tcp and unix) must connect; in virtual time every history of authorize / dial / advance / rotate up to the depth is explored: an unregistered node must get ErrNotAuthorized and store no certificates, must connect with the same stored key after authorization, and must connect whenever it holds a valid chain under a root the server still holds.",
         "Two rogue constructions use the server's own root key (stronger than a real adversary). Ties in validity are not judged.", "6/C07", "E4+E1"),
 "C08": ("model_checking", "exhaustive order-type enumeration (E4) + explicit-state BFS of rotation histories in virtual time (E1) on the real rotation code",
         "Every weak ordering of the four stored validity instants and now (well-formed windows, at 1h and at 1ns spacing, so exact ties and +-1ns are cases) x lifetime/skew/reinitialize/clock configurations is run through the real RotateRootCertificates; the action taken must be one the property's decision table allows, promoted roots must be byte-identical, minted windows must equal now+skew..now+lifetime+skew shifted by exactly half the remaining life (frozen clock => equality), returned == reloaded, both roots self-signed CAs. Rotation/advance histories from empty storage are searched breadth-first with the same oracle.",
         "Ties may be decided either way; ill-formed windows and sub-2ns lifetime+skew are excluded as unreachable/meaningless.", "6/C08", "E4+E1"),
 "C09": ("model_checking", "explicit-state BFS over cadence-respecting rotation/enrollment schedules in virtual time (E1) with real handshakes and the real validity filters as oracle",
         "For nine (thorough twelve) parameter sets, every schedule of server rotation calls and node (re-)enrollments on a one-hour grid that respects the two cadence bounds of the property is explored up to the horizon; a monitor disables the passing of time when a bound would be exceeded. Every rotation must be a no-op or a promotion of a valid next root; in every reachable state the node must hold a chain that the real ClientConfigs/ServerConfig filters accept now and at every window end-point +-1ns inside the next grid interval, and a real Dial through the real listener under the virtual clock must authenticate.",
         "Bounded by the horizon (not a fixpoint). Jittered and multi-magnitude schedules are not claimed.", "6/C09", "E1"),
 "C10": ("model_checking", "explicit-state BFS over the real RotateNodeCredentials (E1) against a reference predicate",
         "From 8 initial stores, every rotation request in the product encrypting key x identification path x inner request variant, every replay of an honoured payload and removals of old records are executed (quick depth 3, thorough 4); a request may be honoured only if a consulted record's current or recorded previous shared key opens it and the inner request is a valid registration of an unregistered key; then the new record must carry the authenticating record's state, all other records stay byte-identical, the reply opens with that record's current shared key and no other pool key, and the inner credentials with the new key only; refused requests must leave storage byte-identical.",
         "Forged = encrypted under another pool key. Revocation of the freshly rotated-in key followed by a replay is outside the alphabet.", "6/C10", "E1"),
 "C11": ("exploration", "bounded-exhaustive input enumeration (E4) of the real EncryptMessage/DecryptMessage",
         "All 8x8 sender/receiver key agreements in both directions for 5 message types x 3 sizes, all 8x8x8 current/previous receiver combinations, and for one envelope per message kind every single-bit flip, every truncation, every short BlobInfo, field deletions and all 1- and 2-byte envelopes are decrypted by the real code; the oracle is the property's (round trip iff secret and key id match; mutated => error or the original plaintext; never a panic).",
         "Cryptographic strength of X25519/AES-GCM is trusted; multi-byte random mutations are not claimed.", "6/C11", "E4"),
 "C12": ("exploration", "bounded-exhaustive enumeration (E4) of record shapes, writing flows and sealed-field transplants with byte-level inspection of what reaches Storage.Store",
         "Every flow that writes records and every hand-built record over all combinations of optional fields is stored with a real AEAD storage wrapper into a recording store; each stored byte string is unwrapped with the same wrapper to learn the secrets it protects, and no secret (private keys in PKCS8 and raw form, node nonce, marshaled creation time) may occur in any byte string handed to Store; loading without or with another wrapper must fail, round trips must be exact, and every sealed field moved into another record of the same type must fail to open.",
         "Two known findings (retained previous keys stored in clear) are listed in known_findings.json. Substring search on >= 8-byte secrets.", "6/C12", "E4"),
 "C13": ("fault_enumeration", "exhaustive single (thorough: double) deviation enumeration over every storage call of every flow (E3) on the real code",
         "Each of 19 flows is first run fault-free to count its storage calls; then for every call position and each of three error kinds the flow is re-run from a fresh clone with that call failing without effect (thorough: every pair of positions as well). An error must come without credentials / token / certificates / roots; a success must be reflected in storage; a node record created from a token implies the token record is gone; a failed call leaves every existing node record byte-identical.",
         "Storage calls are atomic (message-granular interface, no torn writes). Faults that turn a refusal into a durable success are not judged (the property allows a fully reflected result).", "6/C13", "E3"),
 "C14": ("fault_enumeration", "bounded-exhaustive enumeration of hostile ClientHello shapes and raw inputs (E4) and of connection drops at every handshake step (E3) against the real listener",
         "Each case (ALPN lists over the library prefixes with malformed / truncated / oversized / duplicated / reordered values, raw non-TLS bytes, honest handshakes cut after the k-th client write or read) is sent to a real InterceptingListener on a loopback socket, with and without a base TLS configuration; Accept runs under recover and must not panic, its error must be temporary, and an honest Dial on the same listener must authenticate afterwards; closing the base listener must give a non-temporary error.",
         "Stalling peers are outside the quantifier. The application-supplied registration wrapper is length-guarded (the aead dependency's short-ciphertext panic is not attributed to the library).", "6/C14", "E4+E3"),
 "C15": ("exploration", "stateless exhaustive schedule exploration (E2) of concurrent real Accept calls under a controlled scheduler with harness seams; free-running -race companion",
         "Handler threads each run one real InterceptingListener.Accept over real loopback connections; the scheduler owns the points where handshakes can touch shared state (every storage call, entry/exit of the fetch and certificate functions, the base Accept) and every schedule within the preemption bound (2, thorough 3) is executed for every pair (thorough: also triples) of client kinds and every option-slice shape; each connection's server result, reported client state and protocol list, client-side answer and created record must equal its outcome when handled alone.",
         "Blocks between scheduling points are treated as atomic; unsynchronised accesses inside them are the -race companion's (sampling). Clients are storage-independent by construction.", "6/C15", "E2+R"),
 "C16": ("exploration", "bounded-exhaustive input product (E4) through real handshakes, judged on the connection object the application receives",
         "7 client-state shapes x 8 extra-ALPN lists through the real Dial and through a hand-built client whose offered list is known exactly (plus forged state signatures): on every authenticated connection ClientState() must equal what was dialled, ClientNextProtos() must equal the offered list in order minus certificate-preference entries, and the returned slice must be a copy; forged state must never yield a connection.",
         "Empty and absent state are identified. Oversized states that cannot authenticate are counted, not judged.", "6/C16", "E4"),
 "C17": ("exploration", "bounded-exhaustive configuration/input product (E4) over real listener topologies with deterministic observation of routing",
         "All 16 sets of registered sub-listeners x native on/off x 13 client kinds run against the real InterceptingListener + SplitListener; the sub-listener that obtains a connection records its concrete type and negotiated protocol and answers with its name, so the client observes exactly where it was routed or that it was closed. A connection on any sub-listener but __UNAUTH__ must be node-authenticated; routing must follow the property's rule; types must be *tls.Conn unless native; after the base listener closes every sub-listener's Accept returns net.ErrClosed.",
         "Any matching specific sub-listener may win when several match. GetListener after close is not exercised.", "6/C17", "E4"),
 "C18": ("exploration", "stateless exhaustive schedule exploration (E2) of the real MultiplexingListener under a controlled scheduler: preemption-bounded search without reduction plus unbounded search with sleep-set partial-order reduction; free-running -race companion",
         "net/splitlistener.go is rebuilt with its mutexes, once, channel, select, context and go statements replaced by scheduler-owned shims that follow the Go runtime's algorithms; for each thread set (ingress, accept, close, parent cancel, listener feeder) every schedule with at most 2 (thorough 3) preemptions is executed without reduction, and all interleavings without a bound are executed up to sleep-set equivalence, including both outcomes of every select with two ready cases; each execution must end without deadlock or panic, with every call returned and every connection returned by exactly one Accept xor closed, and no Accept started after a returned Close may hand out a connection.",
         "Sequential consistency between synchronisation operations; shim fidelity (RWMutex writer preference, channel hand-off, close semantics) is trusted and self-tested; the unbounded pass assumes data-race freedom between scheduling points (the bounded pass does not); data races are sampled by the -race companion.", "6/C18", "E2+R"),
 "C19": ("model_checking", "explicit-state BFS of the real back ends against a map model (E1) + exhaustive schedule exploration of the in-memory back end under a controlled scheduler with porcupine linearizability checking (E2)",
         "Sequential: every operation sequence over 4 types x 2 ids x 2 values (plus refused operations) up to the stated depth / fixpoint on inmem, file and store-once, with a full load+list comparison after every transition. Concurrent: all interleavings (no preemption bound) of 2x2 and 3x1 thread programs colliding on one slot, on the real inmem code with sync replaced by scheduler-owned shims; each history must be linearizable w.r.t. the map model.",
         "Scheduling points are lock operations only (sequential consistency between them); data-race freedom is reported by the free-running -race companion, which is sampling. Shim fidelity to sync.RWMutex semantics is part of the trusted base.", "6/C19", "E1+E2+R"),
 "C20": ("exploration", "bounded-exhaustive input enumeration (E4) of the real encoder/decoder",
         "Every payload length that fits a ClientHello (thorough: all ~57k lengths x 2 prefixes x 2 contents; quick: all chunk-count boundaries), adversarial contents, foreign entries at every position and every malformed entry over a 5-letter alphabet up to length 4 are run through the real BreakIntoNextProtos/CombineFromNextProtos; exhaustive over lengths, which is what the splitter's behaviour depends on.",
         "Content is enumerated by pattern, not exhaustively; the ClientHello budget is computed (65535-512 bytes of ALPN list).", "6/C20", "E4"),
}
PENDING = "check not built yet in this revision of /verif (planned in DESIGN.md section 6); nothing is claimed"

def main():
    checks = []
    for pid in ALL:
        if pid not in CHECKS:
            continue
        level, tech, text, note, ref, eng = CHECKS[pid]
        checks.append({
            "property_id": pid,
            "quick_cmd": "./vcheck %s quick" % pid,
            "thorough_cmd": "./vcheck %s thorough" % pid,
            "evidence_file": "/verif/evidence/%s.json" % pid,
            "replay_cmd_template": "./vcheck %s quick --replay {path}" % pid,
            "engine": eng,
            "level_claimed": {"category": level, "text": text, "design_ref": "DESIGN.md " + ref},
            "level_note": note,
            "technique": tech,
        })
    m = {
        "version": 1,
        "setup_cmd": "./setup.sh",
        "hooks": {
            "guard": "verif-overlay (go build -overlay; no source hooks in /repo)",
            "enable": "tools/vrewrite generates .work/overlay/overlay-{clock,sched}.json from /repo's working tree; checks build with go build -overlay (sched additionally -tags vsched)",
            "baseline_off_cmd": "cd /repo && GOFLAGS=-mod=mod go test -vet=off -count=1 -timeout 25m ./...",
            "source_commits": [],
            "add_only": True,
        },
        "engines": [
            {"name": "E1", "path": "engine/bfs.go", "serves_properties": ["C01", "C06", "C08", "C09", "C10", "C19"], "kind_free_text": "explicit-state BFS over real API calls with a cloneable store; canonical state keys"},
            {"name": "E2", "path": "engine/dfs.go + vrt/", "serves_properties": ["C15", "C18", "C19"], "kind_free_text": "stateless DFS over schedules of the real code under a cooperative scheduler, iterative preemption bounding"},
            {"name": "E3", "path": "harness/memstore.go", "serves_properties": ["C13", "C14"], "kind_free_text": "single/double deviation fault enumeration at every storage call / handshake step"},
            {"name": "E4", "path": "checks/*", "serves_properties": ["C02", "C03", "C04", "C05", "C07", "C11", "C12", "C16", "C17", "C20"], "kind_free_text": "bounded-exhaustive input/configuration products against reference predicates"},
        ],
        "checks": checks,
        "not_applicable": [{"property_id": p, "reason": PENDING} for p in ALL if p not in CHECKS],
        "notes": "All checks run the real implementation (built from /repo's working tree through a build overlay that adds clock and scheduler seams); see DESIGN.md.",
    }
    json.dump(m, open(os.path.join(ROOT, "MANIFEST.json"), "w"), indent=1)
    print("MANIFEST.json: %d checks, %d not applicable" % (len(checks), len(m["not_applicable"])))

main()
