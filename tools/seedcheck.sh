#!/bin/bash
# seedcheck.sh <dir> <N> <CHECK...> : apply change to /repo, run the given checks (quick), revert.
DIR=$1; N=$2; shift 2
git -C /repo status --short | grep -q . && { echo "/repo not clean"; exit 3; }
trap "git -C /repo checkout -- . 2>/dev/null" EXIT
git -C /repo apply $DIR/change$N.diff || exit 2
for id in "$@"; do
  out=$(cd /verif && timeout 3000 ./vcheck $id ${TIER:-quick} 2>&1); rc=$?
  echo "  [$id rc=$rc] $(echo "$out" | grep -E "signature" | sort | uniq -c | sort -rn | head -4 | tr '\n' ';')"
  [ $rc -ne 0 ] && [ $rc -ne 1 ] && echo "$out" | grep -E "INFRA" | head -3
done
git -C /repo checkout -- .
git -C /repo status --short | head -2
