#!/bin/bash
# seedtest.sh <PROP> <dir-with-changeN.diff/demoN_test.go> <N> [tier]
# Confirms a seeded change (compiles, repo tests pass, demo fails with / passes
# without it) in a scratch worktree, then applies it to /repo, runs the check
# and reverts. Prints one summary line.
set -u
PROP=$1; DIR=$2; N=$3; TIER=${4:-quick}
export GOFLAGS=-mod=mod GOPROXY=off GOSUMDB=off GOTOOLCHAIN=local
PATCH=$DIR/change$N.diff
DEMO=$DIR/demo${N}_test.go
WT=/var/tmp/seed-$PROP-$N
git -C /repo worktree remove --force $WT >/dev/null 2>&1
git -C /repo worktree add -q $WT HEAD || exit 3
cd $WT
if ! git apply --check $PATCH 2>/dev/null; then echo "$PROP/$N: PATCH DOES NOT APPLY"; cd /; git -C /repo worktree remove --force $WT; exit 2; fi
# where does the demo go? first line comment says the package dir; fall back to grep "package"
PKGDIR=${5:-}
if [ -z "$PKGDIR" ]; then
  PKGDIR=$(head -20 $DEMO | grep -oE '(registration|rotation|tls|types|protocol|net|storage/file|storage/inmem|storage/testing|util/[a-z]+)/' | head -1)
  PKGDIR=${PKGDIR%/}
  [ -z "$PKGDIR" ] && PKGDIR=.
fi
echo "demo package dir guess: '$PKGDIR'"
run_demo() { (cd $WT && cp $DEMO $WT/$PKGDIR/zz_demo${N}_test.go && go test -vet=off -count=1 -timeout 10m -run "Demo|demo|C[0-9][0-9]|Seed" ./$PKGDIR/ 2>&1 | tail -3; rm -f $WT/$PKGDIR/zz_demo${N}_test.go); }
echo "--- demo WITHOUT change"; run_demo | tail -2
git apply $PATCH
echo "--- build + full suite WITH change"; (go build ./... && go test -vet=off -count=1 -timeout 25m ./... 2>&1 | grep -v "no test files" | tail -12)
echo "--- demo WITH change"; run_demo | tail -3
cd /
git -C /repo worktree remove --force $WT
echo "--- check $PROP $TIER on /repo with the change"
git -C /repo apply $PATCH && (cd /verif && timeout 3000 ./vcheck $PROP $TIER 2>&1 | grep -E "^VIOLATION|signature|^$PROP|INFRA|KNOWN" | head -8); git -C /repo checkout -- . ; git -C /repo status --short | head -3
