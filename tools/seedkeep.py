#!/usr/bin/env python3
"""seedkeep.py <PROP> <N> <caught_by_csv> <missed_by_csv> [note]  : archive /tmp/<PROP>-out/changeN into /verif/seeded/<PROP>-<N>/"""
import sys, os, shutil, json, subprocess
prop, n = sys.argv[1], sys.argv[2]
caught = [x for x in sys.argv[3].split(',') if x]
missed = [x for x in sys.argv[4].split(',') if x]
note = sys.argv[5] if len(sys.argv) > 5 else ""
rnd = os.environ.get("SEED_ROUND", "")
src = f"/tmp/{prop}-out{rnd}"
dst = f"/verif/seeded/{prop}-{n}" if not rnd else f"/verif/seeded/{prop}-{int(n)+2*(int(rnd)-1)}"
os.makedirs(dst, exist_ok=True)
shutil.copy(f"{src}/change{n}.diff", f"{dst}/patch.diff")
shutil.copy(f"{src}/demo{n}_test.go", f"{dst}/demo_test.go.txt")
desc = open(f"{src}/change{n}.md").read() if os.path.exists(f"{src}/change{n}.md") else ""
head = subprocess.run(["git", "-C", "/repo", "log", "--format=%h", "-1"], capture_output=True, text=True).stdout.strip()
meta = {
  "breaks_property": prop,
  "origin": "independent sub-agent given only the property text and a scratch worktree" + (" (round %s: also told the one-line descriptions of the round-1 changes, to avoid repeats)" % rnd if rnd else ""),
  "description_by_author": desc,
  "applies_to_repo_commit": head,
  "confirmed": {
     "how": "tools/seedvalidate.sh in a scratch worktree under /var/tmp (removed afterwards): demo passes without the change; with the change the library builds, the whole existing suite passes, and the demo fails",
     "result": "VALID",
  },
  "checks_run_with_change_applied_to_repo": {"how": "tools/seedcheck.sh: git -C /repo apply patch.diff; ./vcheck <ID> quick; git -C /repo checkout -- .", "caught_by": caught, "not_caught_by": missed},
  "note": note,
  "demo": "demo_test.go.txt (copy into the package directory named in its header as *_test.go)",
}
json.dump(meta, open(f"{dst}/meta.json", "w"), indent=1)
print("kept", dst, "caught by", caught, "missed by", missed)
