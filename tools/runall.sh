#!/bin/bash
# runall.sh [tier] : runs every registered check, prints one line each, validates evidence.
TIER=${1:-quick}
cd "$(dirname "$0")/.."
fail=0
for id in $(python3 -c "import json;print(' '.join(c['property_id'] for c in json.load(open('MANIFEST.json'))['checks']))"); do
  s=$(date +%s)
  out=$(timeout 7200 ./vcheck $id $TIER 2>&1); rc=$?
  echo "$id rc=$rc $(($(date +%s)-s))s  $(echo "$out" | grep -E "^$id " | tail -1)"
  if [ $rc -ne 0 ]; then fail=1; echo "$out" | grep -E "VIOLATION|INFRA|signature" | head -5; fi
done
python3-vt tools/validate.py || fail=1
exit $fail
