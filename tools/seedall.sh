#!/bin/bash
# seedall.sh [tier] (env SEED_GLOB="seeded/C*-9/ seeded/C*-10/" OUT=file to run a subset): apply every archived seeded change to /repo in turn, run the check of the property it
# breaks (plus the extra checks listed in its meta as catching it), revert, and write seeded/RESULTS.md.
TIER=${1:-quick}
cd /verif
git -C /repo status --short | grep -q . && { echo "/repo not clean"; exit 3; }
trap "git -C /repo checkout -- . 2>/dev/null" EXIT
OUT=${OUT:-seeded/RESULTS.md}
echo "# Seeded changes vs checks (tier: $TIER, repo $(git -C /repo log --format=%h -1), verif $(git log --format=%h -1))" > $OUT
echo >> $OUT
echo "| seeded change | breaks | check | exit | signatures reported |" >> $OUT
echo "|---|---|---|---|---|" >> $OUT
for d in ${SEED_GLOB:-seeded/C*-*/}; do
  id=$(basename $d); prop=${id%-*}
  checks=$(python3 -c "import json;m=json.load(open('$d/meta.json'));c=m['checks_run_with_change_applied_to_repo']['caught_by'];print(' '.join(dict.fromkeys(['$prop']+c)))")
  git -C /repo apply /verif/${d}patch.diff || { echo "| $id | $prop | - | PATCH FAILED | |" >> $OUT; continue; }
  for c in $checks; do
    out=$(timeout 2400 ./vcheck $c $TIER 2>&1); rc=$?
    sigs=$(echo "$out" | grep -E "^  signature:" | sed 's/  signature: //' | sort -u | head -4 | tr '\n' ' ')
    echo "| $id | $prop | $c | $rc | $sigs |" >> $OUT
    echo "$id $c rc=$rc $sigs"
  done
  git -C /repo checkout -- .
done
