// vrewrite generates the build overlays that put the module under test behind
// the verification seams without touching /repo:
//
//	clock  every non-test, non-generated file: time.Now/Until/Since and
//	       timestamppb.Now -> vclock.*, x509.VerifyOptions{...} gets
//	       CurrentTime: vclock.Now()
//	sched  (clock +) the configured files get sync -> vsync, context ->
//	       vcontext, channel syntax -> vchan calls, go -> vrt.Go
//
// Output: <out>/overlay-clock.json, <out>/overlay-sched.json and the rewritten
// files under <out>/clock/... and <out>/sched/.... The virtual packages under
// <verif>/vrt are mapped to <repo>/zz_verif/....
//
// Purely syntactic (go/parser, go/ast, go/printer). Anything it does not
// understand is an INFRA error (exit 3), never a silent pass-through.
package main

import (
	"bytes"
	"encoding/json"
	"flag"
	"fmt"
	"go/ast"
	"go/parser"
	"go/printer"
	"go/token"
	"os"
	"path/filepath"
	"reflect"
	"sort"
	"strconv"
	"strings"
)

const modPath = "github.com/hashicorp/nodeenrollment"

type schedCfg struct {
	Context bool // rewrite the context import
	Chans   bool // rewrite channel syntax and go statements
}

// files that get the sched rule set (relative to the repo root)
var schedFiles = map[string]schedCfg{
	"net/splitlistener.go":   {Context: true, Chans: true},
	"storage/inmem/inmem.go": {Context: false, Chans: false},
}

func infra(format string, a ...any) {
	fmt.Fprintf(os.Stderr, "INFRA: vrewrite: "+format+"\n", a...)
	os.Exit(3)
}

func main() {
	repo := flag.String("repo", "/repo", "module under test")
	verif := flag.String("verif", "/verif", "verification tree")
	out := flag.String("out", "/verif/.work/overlay", "output directory")
	flag.Parse()

	if err := os.RemoveAll(*out); err != nil {
		infra("%v", err)
	}
	clockRepl := map[string]string{}
	schedRepl := map[string]string{}

	// virtual packages
	virt := map[string]string{"vclock": "vclock", "sched": "vrt", "vsync": "vsync", "vchan": "vchan", "vcontext": "vcontext"}
	for dir, name := range virt {
		ents, err := os.ReadDir(filepath.Join(*verif, "vrt", dir))
		if err != nil {
			infra("%v", err)
		}
		for _, e := range ents {
			if !strings.HasSuffix(e.Name(), ".go") || strings.HasSuffix(e.Name(), "_test.go") {
				continue
			}
			src := filepath.Join(*verif, "vrt", dir, e.Name())
			dst := filepath.Join(*repo, "zz_verif", name, e.Name())
			clockRepl[dst] = src
			schedRepl[dst] = src
		}
	}

	var files []string
	err := filepath.Walk(*repo, func(p string, info os.FileInfo, err error) error {
		if err != nil {
			return err
		}
		rel, _ := filepath.Rel(*repo, p)
		if info.IsDir() {
			base := filepath.Base(p)
			if rel != "." && (strings.HasPrefix(base, ".") || base == "testdata" || base == "zz_verif" || base == "vendor") {
				return filepath.SkipDir
			}
			return nil
		}
		if !strings.HasSuffix(p, ".go") || strings.HasSuffix(p, "_test.go") || strings.HasSuffix(p, ".pb.go") {
			return nil
		}
		files = append(files, rel)
		return nil
	})
	if err != nil {
		infra("%v", err)
	}
	sort.Strings(files)

	stats := map[string]int{}
	for _, rel := range files {
		src := filepath.Join(*repo, rel)
		// clock variant
		if b, changed := rewriteFile(src, rel, nil, stats); changed {
			dst := filepath.Join(*out, "clock", rel)
			write(dst, b)
			clockRepl[src] = dst
			schedRepl[src] = dst
		}
		if cfg, ok := schedFiles[rel]; ok {
			b, _ := rewriteFile(src, rel, &cfg, stats)
			dst := filepath.Join(*out, "sched", rel)
			write(dst, b)
			schedRepl[src] = dst
		}
	}
	for rel := range schedFiles {
		if _, err := os.Stat(filepath.Join(*repo, rel)); err != nil {
			infra("configured sched file missing: %s", rel)
		}
	}
	writeJSON(filepath.Join(*out, "overlay-clock.json"), map[string]any{"Replace": clockRepl})
	writeJSON(filepath.Join(*out, "overlay-sched.json"), map[string]any{"Replace": schedRepl})
	writeJSON(filepath.Join(*out, "stats.json"), stats)
	fmt.Printf("vrewrite: %d files scanned, clock-rewritten=%d sched-rewritten=%d clock-calls=%d verifyopts=%d select=%d send=%d recv=%d range=%d go=%d chantypes=%d\n",
		len(files), stats["clockFiles"], stats["schedFiles"], stats["clockCalls"], stats["verifyOpts"], stats["select"], stats["send"], stats["recv"], stats["range"], stats["go"], stats["chanTypes"])
}

func write(p string, b []byte) {
	if err := os.MkdirAll(filepath.Dir(p), 0o755); err != nil {
		infra("%v", err)
	}
	if err := os.WriteFile(p, b, 0o644); err != nil {
		infra("%v", err)
	}
}

func writeJSON(p string, v any) {
	b, _ := json.MarshalIndent(v, "", " ")
	write(p, b)
}

// ---------------------------------------------------------------------------

type rw struct {
	fset      *token.FileSet
	file      *ast.File
	rel       string
	cfg       *schedCfg
	stats     map[string]int
	timeName  string // local name of "time" ("" if not imported)
	tspbName  string
	x509Name  string
	chanNames map[string]bool
	changed   bool
	needClock bool
	tmp       int
}

func importName(f *ast.File, path, def string) string {
	for _, im := range f.Imports {
		p, _ := strconv.Unquote(im.Path.Value)
		if p == path {
			if im.Name != nil {
				if im.Name.Name == "_" || im.Name.Name == "." {
					infra("unsupported import form for %s", path)
				}
				return im.Name.Name
			}
			return def
		}
	}
	return ""
}

func rewriteFile(src, rel string, cfg *schedCfg, stats map[string]int) ([]byte, bool) {
	fset := token.NewFileSet()
	f, err := parser.ParseFile(fset, src, nil, parser.ParseComments)
	if err != nil {
		infra("parse %s: %v", rel, err)
	}
	for _, cg := range f.Comments {
		for _, c := range cg.List {
			if strings.HasPrefix(c.Text, "//go:") && !strings.HasPrefix(c.Text, "//go:generate") {
				infra("%s: directive %q not supported by the rewriter", rel, c.Text)
			}
			if strings.HasPrefix(c.Text, "// +build") {
				infra("%s: build constraint not supported by the rewriter", rel)
			}
		}
	}
	r := &rw{fset: fset, file: f, rel: rel, cfg: cfg, stats: stats, chanNames: map[string]bool{}}
	r.timeName = importName(f, "time", "time")
	r.tspbName = importName(f, "google.golang.org/protobuf/types/known/timestamppb", "timestamppb")
	r.x509Name = importName(f, "crypto/x509", "x509")

	if cfg != nil && cfg.Chans {
		r.collectChanNames()
	}

	apply(f, r.visit)

	if cfg != nil {
		r.changed = true
		r.swapImport("sync", modPath+"/zz_verif/vsync", "sync")
		if cfg.Context {
			r.swapImport("context", modPath+"/zz_verif/vcontext", "context")
		}
		if cfg.Chans {
			r.addImport("vchan", modPath+"/zz_verif/vchan")
			r.addImport("vrt", modPath+"/zz_verif/vrt")
			r.keepAlive("vchan", "Make[int]")
			r.keepAlive("vrt", "Yield")
		}
		if cfg != nil && stats != nil {
			stats["schedFiles"]++
		}
	}
	if !r.changed {
		return nil, false
	}
	if r.needClock {
		r.addImport("vclock", modPath+"/zz_verif/vclock")
		if r.timeName != "" {
			r.keepAlive(r.timeName, "Second")
		}
		if r.tspbName != "" {
			r.keepAlive(r.tspbName, "New")
		}
		if cfg == nil {
			stats["clockFiles"]++
		}
	}
	// the comments' positions no longer match the tree
	f.Comments = nil
	ast.Inspect(f, func(n ast.Node) bool {
		switch x := n.(type) {
		case *ast.FuncDecl:
			x.Doc = nil
		case *ast.GenDecl:
			x.Doc = nil
		case *ast.Field:
			x.Doc, x.Comment = nil, nil
		case *ast.ValueSpec:
			x.Doc, x.Comment = nil, nil
		case *ast.TypeSpec:
			x.Doc, x.Comment = nil, nil
		case *ast.ImportSpec:
			x.Doc, x.Comment = nil, nil
		}
		return true
	})
	f.Doc = nil
	var buf bytes.Buffer
	fmt.Fprintf(&buf, "// Code generated by /verif/tools/vrewrite from %s; DO NOT EDIT.\n\n", rel)
	if err := (&printer.Config{Mode: printer.UseSpaces | printer.TabIndent, Tabwidth: 8}).Fprint(&buf, fset, f); err != nil {
		infra("print %s: %v", rel, err)
	}
	out := buf.Bytes()
	// sanity: the result must parse and must not contain the calls we own
	f2, err := parser.ParseFile(token.NewFileSet(), rel, out, 0)
	if err != nil {
		infra("rewritten %s does not parse: %v", rel, err)
	}
	ast.Inspect(f2, func(n ast.Node) bool {
		if se, ok := n.(*ast.SelectorExpr); ok {
			if id, ok := se.X.(*ast.Ident); ok && id.Obj == nil {
				if id.Name == r.timeName && (se.Sel.Name == "Now" || se.Sel.Name == "Until" || se.Sel.Name == "Since") {
					infra("%s: %s.%s survived the clock rewrite", rel, id.Name, se.Sel.Name)
				}
				if id.Name == r.tspbName && se.Sel.Name == "Now" {
					infra("%s: timestamppb.Now survived the clock rewrite", rel)
				}
			}
		}
		if cfg != nil && cfg.Chans {
			switch n.(type) {
			case *ast.SelectStmt, *ast.SendStmt, *ast.GoStmt, *ast.ChanType:
				infra("%s: channel construct %T survived the sched rewrite", rel, n)
			case *ast.UnaryExpr:
				if n.(*ast.UnaryExpr).Op == token.ARROW {
					infra("%s: receive expression survived the sched rewrite", rel)
				}
			}
		}
		return true
	})
	return out, true
}

func (r *rw) swapImport(from, to, name string) {
	for _, im := range r.file.Imports {
		p, _ := strconv.Unquote(im.Path.Value)
		if p == from {
			if im.Name != nil && im.Name.Name != name {
				infra("%s: import %s is renamed", r.rel, from)
			}
			im.Path.Value = strconv.Quote(to)
			im.Name = ast.NewIdent(name)
			return
		}
	}
}

func (r *rw) addImport(name, path string) {
	for _, im := range r.file.Imports {
		p, _ := strconv.Unquote(im.Path.Value)
		if p == path {
			return
		}
	}
	spec := &ast.ImportSpec{Name: ast.NewIdent(name), Path: &ast.BasicLit{Kind: token.STRING, Value: strconv.Quote(path)}}
	for _, d := range r.file.Decls {
		if gd, ok := d.(*ast.GenDecl); ok && gd.Tok == token.IMPORT {
			gd.Specs = append(gd.Specs, spec)
			if gd.Lparen == token.NoPos {
				gd.Lparen = gd.Pos()
				gd.Rparen = gd.End()
			}
			r.file.Imports = append(r.file.Imports, spec)
			return
		}
	}
	gd := &ast.GenDecl{Tok: token.IMPORT, Specs: []ast.Spec{spec}}
	r.file.Decls = append([]ast.Decl{gd}, r.file.Decls...)
	r.file.Imports = append(r.file.Imports, spec)
}

// keepAlive adds `var _ = pkg.sym` so that an import cannot become unused.
func (r *rw) keepAlive(pkg, sym string) {
	expr, err := parser.ParseExpr(pkg + "." + sym)
	if err != nil {
		infra("keepAlive: %v", err)
	}
	stripPos(expr)
	r.file.Decls = append(r.file.Decls, &ast.GenDecl{Tok: token.VAR, Specs: []ast.Spec{
		&ast.ValueSpec{Names: []*ast.Ident{ast.NewIdent("_")}, Values: []ast.Expr{expr}},
	}})
}

func stripPos(n ast.Node) {
	apply(n, func(n ast.Node) ast.Node {
		v := reflect.ValueOf(n)
		if v.Kind() == reflect.Ptr && v.Elem().Kind() == reflect.Struct {
			e := v.Elem()
			for i := 0; i < e.NumField(); i++ {
				if e.Field(i).Type() == reflect.TypeOf(token.NoPos) && e.Field(i).CanSet() {
					e.Field(i).SetInt(0)
				}
			}
		}
		return n
	})
}

func (r *rw) collectChanNames() {
	ast.Inspect(r.file, func(n ast.Node) bool {
		switch x := n.(type) {
		case *ast.Field:
			if _, ok := x.Type.(*ast.ChanType); ok {
				for _, nm := range x.Names {
					r.chanNames[nm.Name] = true
				}
			}
		case *ast.ValueSpec:
			if _, ok := x.Type.(*ast.ChanType); ok {
				for _, nm := range x.Names {
					r.chanNames[nm.Name] = true
				}
			}
		case *ast.AssignStmt:
			// ch := make(chan T)
			if len(x.Lhs) == len(x.Rhs) {
				for i, rhs := range x.Rhs {
					if ce, ok := rhs.(*ast.CallExpr); ok {
						if id, ok := ce.Fun.(*ast.Ident); ok && id.Name == "make" && len(ce.Args) > 0 {
							if _, ok := ce.Args[0].(*ast.ChanType); ok {
								if l, ok := x.Lhs[i].(*ast.Ident); ok {
									r.chanNames[l.Name] = true
								}
							}
						}
					}
				}
			}
		}
		return true
	})
}

func (r *rw) isChanExpr(e ast.Expr) bool {
	switch x := e.(type) {
	case *ast.Ident:
		return r.chanNames[x.Name]
	case *ast.SelectorExpr:
		return r.chanNames[x.Sel.Name]
	case *ast.ParenExpr:
		return r.isChanExpr(x.X)
	case *ast.CallExpr:
		if se, ok := x.Fun.(*ast.SelectorExpr); ok && se.Sel.Name == "Done" && len(x.Args) == 0 {
			return true
		}
		if isPkgCall(x, "vchan", "Make") {
			return true
		}
	}
	return false
}

func sel(pkg, name string) ast.Expr {
	return &ast.SelectorExpr{X: ast.NewIdent(pkg), Sel: ast.NewIdent(name)}
}

func call(fun ast.Expr, args ...ast.Expr) *ast.CallExpr {
	return &ast.CallExpr{Fun: fun, Args: args}
}

func isPkgCall(e ast.Expr, pkg, name string) bool {
	ce, ok := e.(*ast.CallExpr)
	if !ok {
		return false
	}
	fun := ce.Fun
	if ix, ok := fun.(*ast.IndexExpr); ok {
		fun = ix.X
	}
	se, ok := fun.(*ast.SelectorExpr)
	if !ok {
		return false
	}
	id, ok := se.X.(*ast.Ident)
	return ok && id.Name == pkg && se.Sel.Name == name
}

func (r *rw) fresh(prefix string) string {
	r.tmp++
	return fmt.Sprintf("_v%s%d", prefix, r.tmp)
}

func (r *rw) pos(n ast.Node) string {
	return r.fset.Position(n.Pos()).String()
}

// visit is called post-order on every node and returns its replacement.
func (r *rw) visit(n ast.Node) ast.Node {
	switch x := n.(type) {
	case *ast.SelectorExpr:
		if id, ok := x.X.(*ast.Ident); ok && id.Obj == nil {
			if r.timeName != "" && id.Name == r.timeName {
				switch x.Sel.Name {
				case "Now", "Until", "Since":
					r.changed, r.needClock = true, true
					r.stats["clockCalls"]++
					return sel("vclock", x.Sel.Name)
				case "Sleep", "After", "AfterFunc", "NewTimer", "NewTicker", "Tick":
					fmt.Fprintf(os.Stderr, "vrewrite: warning: %s uses time.%s, which the clock seam does not own\n", r.pos(x), x.Sel.Name)
				}
			}
			if r.tspbName != "" && id.Name == r.tspbName && x.Sel.Name == "Now" {
				r.changed, r.needClock = true, true
				r.stats["clockCalls"]++
				return sel("vclock", "TimestampNow")
			}
		}
	case *ast.CompositeLit:
		if se, ok := x.Type.(*ast.SelectorExpr); ok {
			if id, ok := se.X.(*ast.Ident); ok && id.Obj == nil && r.x509Name != "" && id.Name == r.x509Name && se.Sel.Name == "VerifyOptions" {
				has := false
				for _, el := range x.Elts {
					if kv, ok := el.(*ast.KeyValueExpr); ok {
						if k, ok := kv.Key.(*ast.Ident); ok && k.Name == "CurrentTime" {
							has = true
						}
					} else {
						infra("%s: positional x509.VerifyOptions literal", r.pos(x))
					}
				}
				if !has {
					x.Elts = append(x.Elts, &ast.KeyValueExpr{Key: ast.NewIdent("CurrentTime"), Value: call(sel("vclock", "Now"))})
					r.changed, r.needClock = true, true
					r.stats["verifyOpts"]++
				}
			}
		}
	}
	if r.cfg == nil || !r.cfg.Chans {
		return n
	}
	// ---- sched / channel rules
	switch x := n.(type) {
	case *ast.ChanType:
		r.stats["chanTypes"]++
		return &ast.StarExpr{X: &ast.IndexExpr{X: sel("vchan", "Chan"), Index: x.Value}}
	case *ast.CallExpr:
		if id, ok := x.Fun.(*ast.Ident); ok && id.Obj == nil {
			switch id.Name {
			case "make":
				if len(x.Args) >= 1 {
					if st, ok := x.Args[0].(*ast.StarExpr); ok {
						if ix, ok := st.X.(*ast.IndexExpr); ok {
							if s, ok := ix.X.(*ast.SelectorExpr); ok {
								if p, ok := s.X.(*ast.Ident); ok && p.Name == "vchan" && s.Sel.Name == "Chan" {
									var size ast.Expr = &ast.BasicLit{Kind: token.INT, Value: "0"}
									if len(x.Args) == 2 {
										size = x.Args[1]
									}
									return call(&ast.IndexExpr{X: sel("vchan", "Make"), Index: ix.Index}, size)
								}
							}
						}
					}
				}
			case "close":
				if len(x.Args) == 1 {
					return call(sel("vchan", "Close"), x.Args[0])
				}
			case "len", "cap":
				if len(x.Args) == 1 && r.isChanExpr(x.Args[0]) {
					m := "Len"
					if id.Name == "cap" {
						m = "Cap"
					}
					return call(&ast.SelectorExpr{X: x.Args[0], Sel: ast.NewIdent(m)})
				}
			}
		}
	case *ast.SendStmt:
		r.stats["send"]++
		return &ast.ExprStmt{X: call(sel("vchan", "Send"), x.Chan, x.Value)}
	case *ast.UnaryExpr:
		if x.Op == token.ARROW {
			r.stats["recv"]++
			return call(sel("vchan", "Recv"), x.X)
		}
	case *ast.AssignStmt:
		if len(x.Lhs) == 2 && len(x.Rhs) == 1 && isPkgCall(x.Rhs[0], "vchan", "Recv") {
			x.Rhs[0].(*ast.CallExpr).Fun = sel("vchan", "Recv2")
		}
	case *ast.ValueSpec:
		if len(x.Names) == 2 && len(x.Values) == 1 && isPkgCall(x.Values[0], "vchan", "Recv") {
			x.Values[0].(*ast.CallExpr).Fun = sel("vchan", "Recv2")
		}
	case *ast.RangeStmt:
		if r.isChanExpr(x.X) {
			if x.Value != nil {
				infra("%s: range over channel with two variables", r.pos(x))
			}
			r.stats["range"]++
			okName := r.fresh("ok")
			var key ast.Expr = ast.NewIdent("_")
			tok := token.DEFINE
			if x.Key != nil {
				key = x.Key
				tok = x.Tok
			}
			recv := &ast.AssignStmt{Lhs: []ast.Expr{key, ast.NewIdent(okName)}, Tok: token.DEFINE, Rhs: []ast.Expr{call(sel("vchan", "Recv2"), x.X)}}
			if tok == token.ASSIGN {
				// for k = range ch: k already exists
				tmp := r.fresh("rv")
				recv.Lhs[0] = ast.NewIdent(tmp)
				body := []ast.Stmt{recv,
					&ast.IfStmt{Cond: &ast.UnaryExpr{Op: token.NOT, X: ast.NewIdent(okName)}, Body: &ast.BlockStmt{List: []ast.Stmt{&ast.BranchStmt{Tok: token.BREAK}}}},
					&ast.AssignStmt{Lhs: []ast.Expr{x.Key}, Tok: token.ASSIGN, Rhs: []ast.Expr{ast.NewIdent(tmp)}},
				}
				return &ast.ForStmt{Body: &ast.BlockStmt{List: append(body, x.Body.List...)}}
			}
			body := []ast.Stmt{recv,
				&ast.IfStmt{Cond: &ast.UnaryExpr{Op: token.NOT, X: ast.NewIdent(okName)}, Body: &ast.BlockStmt{List: []ast.Stmt{&ast.BranchStmt{Tok: token.BREAK}}}},
			}
			return &ast.ForStmt{Body: &ast.BlockStmt{List: append(body, x.Body.List...)}}
		}
	case *ast.GoStmt:
		r.stats["go"]++
		c := x.Call
		if len(c.Args) == 0 {
			return &ast.ExprStmt{X: call(sel("vrt", "Go"), &ast.FuncLit{Type: &ast.FuncType{Params: &ast.FieldList{}}, Body: &ast.BlockStmt{List: []ast.Stmt{&ast.ExprStmt{X: c}}}})}
		}
		// evaluate the arguments at the go statement, as Go does
		var lhs, rhs, args []ast.Expr
		for _, a := range c.Args {
			nm := r.fresh("ga")
			lhs = append(lhs, ast.NewIdent(nm))
			rhs = append(rhs, a)
			args = append(args, ast.NewIdent(nm))
		}
		nc := &ast.CallExpr{Fun: c.Fun, Args: args, Ellipsis: c.Ellipsis}
		if c.Ellipsis != token.NoPos {
			nc.Ellipsis = 1
		}
		return &ast.BlockStmt{List: []ast.Stmt{
			&ast.AssignStmt{Lhs: lhs, Tok: token.DEFINE, Rhs: rhs},
			&ast.ExprStmt{X: call(sel("vrt", "Go"), &ast.FuncLit{Type: &ast.FuncType{Params: &ast.FieldList{}}, Body: &ast.BlockStmt{List: []ast.Stmt{&ast.ExprStmt{X: nc}}}})},
		}}
	case *ast.LabeledStmt:
		if _, ok := x.Stmt.(*ast.BlockStmt); ok {
			// a labeled select became a labeled block: `break L` would now be invalid
			infra("%s: labeled select/go statement not supported", r.pos(x))
		}
	case *ast.SelectStmt:
		r.stats["select"]++
		return r.rewriteSelect(x)
	}
	return n
}

func (r *rw) rewriteSelect(x *ast.SelectStmt) ast.Node {
	var pre []ast.Stmt
	var cases []ast.Expr
	var clauses []ast.Stmt
	hasDefault := false
	idx := 0
	for _, cl := range x.Body.List {
		cc := cl.(*ast.CommClause)
		if cc.Comm == nil {
			hasDefault = true
			clauses = append(clauses, &ast.CaseClause{List: nil, Body: cc.Body})
			continue
		}
		var caseExpr ast.Expr
		var bodyPre []ast.Stmt
		switch c := cc.Comm.(type) {
		case *ast.ExprStmt:
			switch {
			case isPkgCall(c.X, "vchan", "Send"):
				a := c.X.(*ast.CallExpr).Args
				caseExpr = call(sel("vchan", "SendCase"), a[0], a[1])
			case isPkgCall(c.X, "vchan", "Recv"):
				a := c.X.(*ast.CallExpr).Args
				caseExpr = call(sel("vchan", "RecvCase"), a[0], ast.NewIdent("nil"), ast.NewIdent("nil"))
			default:
				infra("%s: unsupported select communication", r.pos(cc))
			}
		case *ast.AssignStmt:
			if len(c.Rhs) != 1 || !(isPkgCall(c.Rhs[0], "vchan", "Recv") || isPkgCall(c.Rhs[0], "vchan", "Recv2")) {
				infra("%s: unsupported select communication", r.pos(cc))
			}
			ch := c.Rhs[0].(*ast.CallExpr).Args[0]
			vName, okName := r.fresh("sv"), r.fresh("sok")
			pre = append(pre,
				&ast.AssignStmt{Lhs: []ast.Expr{ast.NewIdent(vName)}, Tok: token.DEFINE, Rhs: []ast.Expr{call(sel("vchan", "Zero"), ch)}},
				&ast.DeclStmt{Decl: &ast.GenDecl{Tok: token.VAR, Specs: []ast.Spec{&ast.ValueSpec{Names: []*ast.Ident{ast.NewIdent(okName)}, Type: ast.NewIdent("bool")}}}},
				&ast.AssignStmt{Lhs: []ast.Expr{ast.NewIdent("_"), ast.NewIdent("_")}, Tok: token.ASSIGN, Rhs: []ast.Expr{ast.NewIdent(vName), ast.NewIdent(okName)}},
			)
			caseExpr = call(sel("vchan", "RecvCase"), ch, &ast.UnaryExpr{Op: token.AND, X: ast.NewIdent(vName)}, &ast.UnaryExpr{Op: token.AND, X: ast.NewIdent(okName)})
			// bind the user's names inside the case body
			tmps := []ast.Expr{ast.NewIdent(vName), ast.NewIdent(okName)}[:len(c.Lhs)]
			allBlank := true
			for _, l := range c.Lhs {
				if id, ok := l.(*ast.Ident); !ok || id.Name != "_" {
					allBlank = false
				}
			}
			if !allBlank {
				bodyPre = append(bodyPre, &ast.AssignStmt{Lhs: c.Lhs, Tok: c.Tok, Rhs: tmps})
				if c.Tok == token.DEFINE {
					for _, l := range c.Lhs {
						if id, ok := l.(*ast.Ident); ok && id.Name != "_" {
							bodyPre = append(bodyPre, &ast.AssignStmt{Lhs: []ast.Expr{ast.NewIdent("_")}, Tok: token.ASSIGN, Rhs: []ast.Expr{ast.NewIdent(id.Name)}})
						}
					}
				}
			}
		default:
			infra("%s: unsupported select communication %T", r.pos(cc), cc.Comm)
		}
		cases = append(cases, caseExpr)
		clauses = append(clauses, &ast.CaseClause{
			List: []ast.Expr{&ast.BasicLit{Kind: token.INT, Value: strconv.Itoa(idx)}},
			Body: append(bodyPre, cc.Body...),
		})
		idx++
	}
	if !hasDefault {
		clauses = append(clauses, &ast.CaseClause{List: nil, Body: []ast.Stmt{
			&ast.ExprStmt{X: call(ast.NewIdent("panic"), &ast.BasicLit{Kind: token.STRING, Value: strconv.Quote("vchan: impossible select index")})},
		}})
	}
	def := "false"
	if hasDefault {
		def = "true"
	}
	sw := &ast.SwitchStmt{
		Tag:  call(sel("vchan", "Select"), append([]ast.Expr{ast.NewIdent(def)}, cases...)...),
		Body: &ast.BlockStmt{List: clauses},
	}
	if len(pre) == 0 {
		return sw
	}
	return &ast.BlockStmt{List: append(pre, sw)}
}

// ---------------------------------------------------------------------------
// apply: minimal post-order AST rewriter (children first, then f(node)).

var (
	nodeType  = reflect.TypeOf((*ast.Node)(nil)).Elem()
	skipField = map[string]bool{"Obj": true, "Scope": true, "Unresolved": true, "Imports": true, "Comments": true, "Doc": true, "Comment": true}
)

func apply(n ast.Node, f func(ast.Node) ast.Node) ast.Node {
	if n == nil || reflect.ValueOf(n).IsNil() {
		return n
	}
	v := reflect.ValueOf(n)
	if v.Kind() == reflect.Ptr && v.Elem().Kind() == reflect.Struct {
		e := v.Elem()
		t := e.Type()
		for i := 0; i < e.NumField(); i++ {
			if skipField[t.Field(i).Name] {
				continue
			}
			fv := e.Field(i)
			applyValue(fv, f)
		}
	}
	return f(n)
}

func applyValue(fv reflect.Value, f func(ast.Node) ast.Node) {
	switch fv.Kind() {
	case reflect.Interface, reflect.Ptr:
		if fv.IsNil() || !fv.Type().Implements(nodeType) {
			return
		}
		old := fv.Interface().(ast.Node)
		nv := apply(old, f)
		if nv != old {
			rv := reflect.ValueOf(nv)
			if !rv.Type().AssignableTo(fv.Type()) {
				infra("rewriter produced %T where %s is required", nv, fv.Type())
			}
			fv.Set(rv)
		}
	case reflect.Slice:
		if fv.Type().Elem().Kind() != reflect.Interface && fv.Type().Elem().Kind() != reflect.Ptr {
			return
		}
		for j := 0; j < fv.Len(); j++ {
			applyValue(fv.Index(j), f)
		}
	}
}
