#!/usr/bin/env python3
import json, jsonschema, glob, sys
m = json.load(open('/verif/MANIFEST.json'))
jsonschema.validate(m, json.load(open('/root/.vp/MANIFEST.schema.json')))
es = json.load(open('/root/.vp/EVIDENCE.schema.json'))
for c in m['checks']:
    try:
        jsonschema.validate(json.load(open(c['evidence_file'])), es)
    except Exception as e:
        print('EVIDENCE INVALID', c['property_id'], str(e)[:300]); sys.exit(1)
print('manifest + %d evidence files valid' % len(m['checks']))
