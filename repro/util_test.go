package repro

import (
	"crypto/ed25519"
	"crypto/x509"
	"fmt"
)

func x509priv(pkcs8 []byte) (ed25519.PrivateKey, error) {
	k, err := x509.ParsePKCS8PrivateKey(pkcs8)
	if err != nil {
		return nil, err
	}
	ed, ok := k.(ed25519.PrivateKey)
	if !ok {
		return nil, fmt.Errorf("not ed25519")
	}
	return ed, nil
}
