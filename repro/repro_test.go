// Package repro holds plain unit tests (no explorer, no overlay) that replay the
// failing input or history of every defect the checks found in
// hashicorp/nodeenrollment. Tests for repaired defects assert the correct
// behaviour (they failed before the fix commit named in their comment); tests
// for known findings log the finding and pass.
//
//	cd /verif && GOFLAGS=-mod=mod GOPROXY=off GOSUMDB=off go test -vet=off -count=1 ./repro/
package repro

import (
	"bytes"
	"context"
	"crypto/ed25519"
	"crypto/rand"
	"strings"
	"testing"
	"time"

	wrapping "github.com/hashicorp/go-kms-wrapping/v2"
	"github.com/hashicorp/go-kms-wrapping/v2/aead"
	"github.com/hashicorp/nodeenrollment"
	"github.com/hashicorp/nodeenrollment/registration"
	"github.com/hashicorp/nodeenrollment/rotation"
	"github.com/hashicorp/nodeenrollment/storage/inmem"
	storeonce "github.com/hashicorp/nodeenrollment/storage/testing"
	nodetls "github.com/hashicorp/nodeenrollment/tls"
	"github.com/hashicorp/nodeenrollment/types"
	"google.golang.org/protobuf/proto"
	"google.golang.org/protobuf/types/known/structpb"
	"google.golang.org/protobuf/types/known/timestamppb"
)

var ctx = context.Background()

func wrapper(t *testing.T, id string) wrapping.Wrapper {
	t.Helper()
	key := make([]byte, 32)
	rand.Read(key)
	w := aead.NewWrapper()
	if _, err := w.SetConfig(ctx, wrapping.WithKeyId(id), aead.WithKey(key)); err != nil {
		t.Fatal(err)
	}
	return w
}

func server(t *testing.T, opt ...nodeenrollment.Option) *inmem.Storage {
	t.Helper()
	st, _ := inmem.New(ctx)
	if _, err := rotation.RotateRootCertificates(ctx, st, opt...); err != nil {
		t.Fatal(err)
	}
	return st
}

// F3 (fix 9271a3b): a library-prefixed ALPN entry shorter than prefix+3 panicked.
func TestF3_ShortChunkDoesNotPanic(t *testing.T) {
	p := nodeenrollment.AuthenticateNodeNextProtoV1Prefix
	for _, e := range []string{p, p + "x", p + "xx", p + "0-"} {
		if _, err := nodetls.CombineFromNextProtos(p, []string{e}); err != nil {
			t.Logf("%q: %v", e, err)
		}
	}
}

// F4 (fix 9271a3b): payloads needing more than 100 chunks did not round-trip.
func TestF4_MoreThan100ChunksRoundTrip(t *testing.T) {
	p := nodeenrollment.FetchNodeCredsNextProtoV1Prefix
	payload := strings.Repeat("A", 21401)
	chunks, err := nodetls.BreakIntoNextProtos(p, payload)
	if err != nil || len(chunks) != 101 {
		t.Fatalf("chunks=%d err=%v", len(chunks), err)
	}
	got, err := nodetls.CombineFromNextProtos(p, chunks)
	if err != nil || got != payload {
		t.Fatalf("round trip of a 101-chunk payload failed: %d bytes back, err=%v", len(got), err)
	}
}

// F5 (fix d2f13f5): a BlobInfo with fewer than 12 ciphertext bytes panicked in the aead wrapper.
func TestF5_ShortCiphertextIsAnError(t *testing.T) {
	n := &types.NodeInformation{CertificatePublicKeyPkix: []byte("k"), ServerEncryptionPrivateKeyBytes: bytes.Repeat([]byte{1}, 32), ServerEncryptionPrivateKeyType: types.KEYTYPE_X25519,
		EncryptionPublicKeyBytes: bytes.Repeat([]byte{9}, 32), EncryptionPublicKeyType: types.KEYTYPE_X25519}
	for _, env := range [][]byte{{0x08, 0x0f}, {0x0a, 0x03, 1, 2, 3}} {
		if err := nodeenrollment.DecryptMessage(ctx, env, n, new(types.NodeCredentials)); err == nil {
			t.Fatalf("envelope %x was accepted", env)
		}
	}
}

func enrolled(t *testing.T, st nodeenrollment.Storage, nodeId string) (*types.NodeCredentials, ed25519.PrivateKey) {
	t.Helper()
	nd, _ := inmem.New(ctx)
	c, err := types.NewNodeCredentials(ctx, nd)
	if err != nil {
		t.Fatal(err)
	}
	req, _ := c.CreateFetchNodeCredentialsRequest(ctx)
	info, err := registration.AuthorizeNode(ctx, st, req)
	if err != nil {
		t.Fatal(err)
	}
	if nodeId != "" {
		info.NodeId = nodeId
		_ = st.Remove(ctx, info) // store-once storage refuses overwrites
		if err := info.Store(ctx, st); err != nil {
			t.Fatal(err)
		}
	}
	k, _ := x509priv(c.CertificatePrivateKeyPkcs8)
	return c, k
}

// F1 (fix 4053f97): on the node-id path the first record authorized any signature.
func TestF1_NodeIdPathVerifiesEveryRecord(t *testing.T) {
	st, err := storeonce.New(ctx)
	if err != nil {
		t.Fatal(err)
	}
	if _, err := rotation.RotateRootCertificates(ctx, st); err != nil {
		t.Fatal(err)
	}
	c, _ := enrolled(t, st, "node-X")
	_, stranger, _ := ed25519.GenerateKey(rand.Reader)
	nonce := bytes.Repeat([]byte{7}, 32)
	_, err = nodetls.GenerateServerCertificates(ctx, st, &types.GenerateServerCertificatesRequest{
		CertificatePublicKeyPkix: c.CertificatePublicKeyPkix, NodeId: "node-X", Nonce: nonce, NonceSignature: ed25519.Sign(stranger, nonce)})
	if err == nil {
		t.Fatal("a nonce signed by an unregistered key was accepted because a record exists under the node id")
	}
}

// F9 (fix 0cf2c48): with a storage wrapper the token's creation time was also stored in clear.
func TestF9_TokenCreationTimeNotInClear(t *testing.T) {
	w := wrapper(t, "storage")
	st := &recording{Storage: server(t, nodeenrollment.WithStorageWrapper(w))}
	if _, _, err := registration.CreateServerLedActivationToken(ctx, st, &types.ServerLedRegistrationRequest{}, nodeenrollment.WithStorageWrapper(w)); err != nil {
		t.Fatal(err)
	}
	for _, m := range st.stored {
		if tok, ok := m.(*types.ServerLedActivationToken); ok && tok.CreationTime != nil {
			t.Fatalf("creation_time %v handed to storage in clear", tok.CreationTime.AsTime())
		}
	}
}

type recording struct {
	nodeenrollment.Storage
	stored []proto.Message
}

func (r *recording) Store(c context.Context, m nodeenrollment.MessageWithId) error {
	r.stored = append(r.stored, proto.Clone(m))
	return r.Storage.Store(c, m)
}

// F11 (fix b9204ae): wrapper flow + store-once + storage wrapper: the honest retry failed.
func TestF11_RetryOnStoreOnceWithStorageWrapper(t *testing.T) {
	sw, rw := wrapper(t, "storage"), wrapper(t, "registration")
	st, _ := storeonce.New(ctx)
	if _, err := rotation.RotateRootCertificates(ctx, st, nodeenrollment.WithStorageWrapper(sw)); err != nil {
		t.Fatal(err)
	}
	nd, _ := inmem.New(ctx)
	c, _ := types.NewNodeCredentials(ctx, nd)
	req, err := c.CreateFetchNodeCredentialsRequest(ctx, nodeenrollment.WithRegistrationWrapper(rw))
	if err != nil {
		t.Fatal(err)
	}
	for i := 0; i < 2; i++ {
		resp, err := registration.FetchNodeCredentials(ctx, st, req, nodeenrollment.WithStorageWrapper(sw), nodeenrollment.WithRegistrationWrapper(rw))
		if err != nil || len(resp.EncryptedNodeCredentials) == 0 {
			t.Fatalf("fetch #%d: %v", i+1, err)
		}
	}
}

// F10 (known finding): with a storage wrapper, a downgrade edit of the stored token record extends an expired token.
func TestKnownFinding_F10_DowngradeEditExtendsToken(t *testing.T) {
	w := wrapper(t, "storage")
	st := server(t, nodeenrollment.WithStorageWrapper(w))
	id, tok, err := registration.CreateServerLedActivationToken(ctx, st, &types.ServerLedRegistrationRequest{}, nodeenrollment.WithStorageWrapper(w))
	if err != nil {
		t.Fatal(err)
	}
	time.Sleep(20 * time.Millisecond) // older than the 1 ms lifetime used below
	rec := &types.ServerLedActivationToken{Id: id}
	if err := st.Load(ctx, rec); err != nil {
		t.Fatal(err)
	}
	rec.WrappingKeyId = ""
	rec.CreationTime = timestamppb.Now()
	rec.CreationTimeMarshaled, _ = proto.Marshal(rec.CreationTime)
	if err := st.Store(ctx, rec); err != nil {
		t.Fatal(err)
	}
	nd, _ := inmem.New(ctx)
	c, _ := types.NewNodeCredentials(ctx, nd, nodeenrollment.WithActivationToken(tok))
	req, _ := c.CreateFetchNodeCredentialsRequest(ctx, nodeenrollment.WithActivationToken(tok))
	resp, err := registration.FetchNodeCredentials(ctx, st, req, nodeenrollment.WithStorageWrapper(w), nodeenrollment.WithMaximumServerLedActivationTokenLifetime(time.Millisecond))
	if err == nil && len(resp.EncryptedNodeCredentials) > 0 {
		t.Log("KNOWN FINDING C06/F10 still present: the edited, expired token enrolled a node")
	} else {
		t.Logf("the downgrade edit no longer extends the token (%v): move the finding to 'fixed'", err)
	}
}

// F8 (known finding): a retained previous encryption key is stored in clear despite the storage wrapper.
func TestKnownFinding_F8_PreviousKeyInClear(t *testing.T) {
	w := wrapper(t, "storage")
	nd := &recording{Storage: func() nodeenrollment.Storage { s, _ := inmem.New(ctx); return s }()}
	old, _ := types.NewNodeCredentials(ctx, nd, nodeenrollment.WithSkipStorage(true))
	old.ServerEncryptionPublicKeyBytes, old.ServerEncryptionPublicKeyType = bytes.Repeat([]byte{9}, 32), types.KEYTYPE_X25519
	cur, _ := types.NewNodeCredentials(ctx, nd, nodeenrollment.WithSkipStorage(true))
	if err := cur.SetPreviousEncryptionKey(old); err != nil {
		t.Fatal(err)
	}
	if err := cur.Store(ctx, nd, nodeenrollment.WithStorageWrapper(w)); err != nil {
		t.Fatal(err)
	}
	b, _ := proto.Marshal(nd.stored[len(nd.stored)-1])
	if bytes.Contains(b, old.EncryptionPrivateKeyBytes) {
		t.Log("KNOWN FINDING C12/F8 still present: the previous private key is in the bytes handed to storage")
	} else {
		t.Log("the previous key is no longer stored in clear: move the finding to 'fixed'")
	}
}

// F12 (known finding): a root minted as "next" by a rotation call at time t expires at
// t + lifetime + not-after skew (+ the small shift), not a full validity span (lifetime +
// not-after skew - not-before skew) after t. A following rotation call that comes later than
// that, but still sooner than one validity span after the previous call, finds current and
// next both expired and starts over: trust is reset although the interval is shorter than
// the validity span.
func TestKnownFinding_F12_IntervalWithinNotBeforeSkewOfSpanResetsTrust(t *testing.T) {
	const unit = 200 * time.Millisecond
	opts := []nodeenrollment.Option{nodeenrollment.WithCertificateLifetime(16 * unit), nodeenrollment.WithNotBeforeClockSkew(-2 * unit), nodeenrollment.WithNotAfterClockSkew(0)}
	span := 18 * unit
	st, _ := inmem.New(ctx)
	rot := func() *types.RootCertificates {
		r, err := rotation.RotateRootCertificates(ctx, st, opts...)
		if err != nil {
			t.Fatal(err)
		}
		return r
	}
	start := time.Now()
	rot()                                       // bootstrap
	time.Sleep(time.Until(start.Add(5 * unit))) // next not yet valid: nothing changes
	rot()
	time.Sleep(time.Until(start.Add(22 * unit))) // current expired, next valid: promotion, new next minted
	prevCall := time.Now()
	before := rot()
	// come back just after the freshly minted next has expired
	at := before.Next.NotAfter.AsTime().Add(20 * time.Millisecond)
	if at.Sub(prevCall) >= span {
		t.Skipf("timing: the next root outlived one span after the call (%v)", at.Sub(prevCall))
	}
	time.Sleep(time.Until(at))
	interval := time.Since(prevCall)
	after := rot()
	if interval >= span {
		t.Skipf("timing: slept past one validity span (%v)", interval)
	}
	if bytes.Equal(after.Current.PublicKeyPkix, before.Next.PublicKeyPkix) {
		t.Logf("the previous next root was promoted after an interval of %v (< span %v): move the finding to 'fixed'", interval, span)
	} else {
		t.Logf("KNOWN FINDING C09/F12 still present: rotation interval %v is shorter than the validity span %v, yet both roots were replaced (the next root minted %v earlier had expired)", interval, span, interval)
	}
}

// rotationFixture: a server with one enrolled node (record state {"id":"w1"}) and the node's credentials.
func rotationFixture(t *testing.T) (*inmem.Storage, *types.NodeCredentials) {
	st := server(t)
	nd, _ := inmem.New(ctx)
	creds, err := types.NewNodeCredentials(ctx, nd)
	if err != nil {
		t.Fatal(err)
	}
	req, _ := creds.CreateFetchNodeCredentialsRequest(ctx)
	state, _ := structpb.NewStruct(map[string]any{"id": "w1"})
	if _, err := registration.AuthorizeNode(ctx, st, req, nodeenrollment.WithState(state)); err != nil {
		t.Fatal(err)
	}
	resp, err := registration.FetchNodeCredentials(ctx, st, req)
	if err != nil {
		t.Fatal(err)
	}
	if creds, err = creds.HandleFetchNodeCredentialsResponse(ctx, nd, resp); err != nil {
		t.Fatal(err)
	}
	return st, creds
}

// F13 (fixed by a037849): a rotating node attaches re-wrapped registration info, sealed with its own
// current keys and naming its own record, to the embedded fetch request; the fetch step then
// authorized the new key a second time and stored it without the state carried over.
func TestF13_RotationKeepsStateWithRewrappedInfo(t *testing.T) {
	st, cur := rotationFixture(t)
	nd2, _ := inmem.New(ctx)
	next, _ := types.NewNodeCredentials(ctx, nd2)
	inner, _ := next.CreateFetchNodeCredentialsRequest(ctx)
	blob, err := nodeenrollment.EncryptMessage(ctx, &types.WrappingRegistrationFlowInfo{CertificatePublicKeyPkix: next.CertificatePublicKeyPkix, Nonce: next.RegistrationNonce}, cur)
	if err != nil {
		t.Fatal(err)
	}
	curId, _ := nodeenrollment.KeyIdFromPkix(cur.CertificatePublicKeyPkix)
	inner.RewrappedWrappingRegistrationFlowInfo, inner.RewrappingKeyId = blob, curId
	ct, _ := nodeenrollment.EncryptMessage(ctx, inner, cur)
	if _, err := rotation.RotateNodeCredentials(ctx, st, &types.RotateNodeCredentialsRequest{CertificatePublicKeyPkix: cur.CertificatePublicKeyPkix, EncryptedFetchNodeCredentialsRequest: ct}); err != nil {
		t.Fatal(err)
	}
	newId, _ := nodeenrollment.KeyIdFromPkix(next.CertificatePublicKeyPkix)
	rec, err := types.LoadNodeInformation(ctx, st, newId)
	if err != nil {
		t.Fatal(err)
	}
	if rec.State == nil || rec.State.Fields["id"].GetStringValue() != "w1" {
		t.Fatalf("the new record's state is %v, want the rotated record's {id: w1}", rec.State)
	}
}

// F14 (fixed by 1723520): a rotation refused at its fetch step (here: re-wrapped info that does not
// decrypt) returned an error but left the new key registered.
func TestF14_RefusedRotationRegistersNothing(t *testing.T) {
	st, cur := rotationFixture(t)
	nd2, _ := inmem.New(ctx)
	next, _ := types.NewNodeCredentials(ctx, nd2)
	inner, _ := next.CreateFetchNodeCredentialsRequest(ctx)
	curId, _ := nodeenrollment.KeyIdFromPkix(cur.CertificatePublicKeyPkix)
	inner.RewrappedWrappingRegistrationFlowInfo, inner.RewrappingKeyId = []byte("does not decrypt"), curId
	ct, _ := nodeenrollment.EncryptMessage(ctx, inner, cur)
	before, _ := st.List(ctx, (*types.NodeInformation)(nil))
	if _, err := rotation.RotateNodeCredentials(ctx, st, &types.RotateNodeCredentialsRequest{CertificatePublicKeyPkix: cur.CertificatePublicKeyPkix, EncryptedFetchNodeCredentialsRequest: ct}); err == nil {
		t.Fatal("the rotation was honoured")
	}
	after, _ := st.List(ctx, (*types.NodeInformation)(nil))
	if len(after) != len(before) {
		t.Fatalf("a refused rotation changed the set of node records: %v -> %v", before, after)
	}
}

// removeRecorder records the messages handed to Storage.Remove.
type removeRecorder struct {
	nodeenrollment.Storage
	removed []nodeenrollment.MessageWithId
}

func (r *removeRecorder) Remove(c context.Context, m nodeenrollment.MessageWithId) error {
	r.removed = append(r.removed, proto.Clone(m).(nodeenrollment.MessageWithId))
	return r.Storage.Remove(c, m)
}

// F15 (fixed by 092530f): when an activation token was used, the entry that had just been loaded -
// creation time unwrapped - was handed to Storage.Remove (and removed under the id field of the
// stored bytes rather than the id derived from the presented token).
func TestF15_UsedTokenRemovedByIdOnly(t *testing.T) {
	w := wrapper(t, "storage")
	inner := server(t, nodeenrollment.WithStorageWrapper(w))
	st := &removeRecorder{Storage: inner}
	_, tok, err := registration.CreateServerLedActivationToken(ctx, st, &types.ServerLedRegistrationRequest{}, nodeenrollment.WithStorageWrapper(w))
	if err != nil {
		t.Fatal(err)
	}
	nd, _ := inmem.New(ctx)
	c, _ := types.NewNodeCredentials(ctx, nd, nodeenrollment.WithActivationToken(tok))
	req, _ := c.CreateFetchNodeCredentialsRequest(ctx, nodeenrollment.WithActivationToken(tok))
	if _, err := registration.FetchNodeCredentials(ctx, st, req, nodeenrollment.WithStorageWrapper(w)); err != nil {
		t.Fatal(err)
	}
	for _, m := range st.removed {
		if tk, ok := m.(*types.ServerLedActivationToken); ok && (tk.CreationTime != nil || len(tk.CreationTimeMarshaled) > 0) {
			t.Fatalf("the message handed to Storage.Remove carries the token's creation time (%v)", tk.CreationTime)
		}
	}
}
