package harness

import (
	"crypto"
	"crypto/tls"
	"crypto/x509"
	"encoding/base64"
	"fmt"
	"io"
	"net"
	"strings"
	"sync"
	"sync/atomic"
	"time"

	"github.com/hashicorp/nodeenrollment"
	nodetls "github.com/hashicorp/nodeenrollment/tls"
	"github.com/hashicorp/nodeenrollment/types"
	"google.golang.org/protobuf/proto"
)

// RogueCert is what a rogue server presents for one connection.
type RogueCert struct {
	Chain [][]byte
	Key   crypto.Signer
	// ClientCAs are announced as acceptable CAs (the node picks its client
	// certificate by them); defaults to the CA certificates of Chain.
	ClientCAs [][]byte
}

// Rogue is a hand-built TLS 1.3 server that decodes the node's ALPN-carried
// request (so that it knows the nonce of *this* dial) and presents whatever
// certificate its constructor decides.
type Rogue struct {
	ln      net.Listener
	Addr    string
	mu      sync.Mutex
	Nonces  [][]byte // nonce of every connection, in order
	Prefs   []string // certificate preference of every connection
	Done    []bool   // server-side handshake completed
	wg      sync.WaitGroup
	closing bool
}

// DecodeAuthHello extracts the authentication request from a ClientHello.
func DecodeAuthHello(protos []string) (*types.GenerateServerCertificatesRequest, string, error) {
	s, err := nodetls.CombineFromNextProtos(nodeenrollment.AuthenticateNodeNextProtoV1Prefix, protos)
	if err != nil {
		return nil, "", err
	}
	b, err := base64.RawStdEncoding.DecodeString(s)
	if err != nil {
		return nil, "", err
	}
	req := new(types.GenerateServerCertificatesRequest)
	if err := proto.Unmarshal(b, req); err != nil {
		return nil, "", err
	}
	pref := ""
	for _, p := range protos {
		if strings.HasPrefix(p, nodeenrollment.CertificatePreferenceV1Prefix) {
			pref = strings.TrimPrefix(p, nodeenrollment.CertificatePreferenceV1Prefix)
		}
	}
	return req, pref, nil
}

// NewRogue starts the server; mint is called per connection with the decoded
// request and the client's certificate preference.
func NewRogue(mint func(req *types.GenerateServerCertificatesRequest, pref string) (*RogueCert, error)) (*Rogue, error) {
	ln, err := net.Listen("tcp", "127.0.0.1:0")
	if err != nil {
		return nil, err
	}
	r := &Rogue{ln: ln, Addr: ln.Addr().String()}
	go func() {
		for {
			conn, err := ln.Accept()
			if err != nil {
				return
			}
			r.wg.Add(1)
			go func() {
				defer r.wg.Done()
				defer conn.Close()
				idx := -1
				conf := &tls.Config{MinVersion: tls.VersionTLS13, GetConfigForClient: func(hello *tls.ClientHelloInfo) (*tls.Config, error) {
					req, pref, err := DecodeAuthHello(hello.SupportedProtos)
					if err != nil {
						return nil, err
					}
					rc, err := mint(req, pref)
					if err != nil {
						return nil, err
					}
					r.mu.Lock()
					r.Nonces = append(r.Nonces, req.Nonce)
					r.Prefs = append(r.Prefs, pref)
					r.Done = append(r.Done, false)
					idx = len(r.Done) - 1
					r.mu.Unlock()
					var np string
					for _, p := range hello.SupportedProtos {
						if strings.HasPrefix(p, nodeenrollment.AuthenticateNodeNextProtoV1Prefix) {
							np = p
							break
						}
					}
					pool := x509.NewCertPool()
					cas := rc.ClientCAs
					if cas == nil && len(rc.Chain) > 1 {
						cas = rc.Chain[1:]
					}
					for _, der := range cas {
						if c, err := x509.ParseCertificate(der); err == nil {
							pool.AddCert(c)
						}
					}
					return &tls.Config{MinVersion: tls.VersionTLS13, ClientAuth: tls.RequireAnyClientCert, NextProtos: []string{np}, ClientCAs: pool,
						Certificates: []tls.Certificate{{Certificate: rc.Chain, PrivateKey: rc.Key}}}, nil
				}}
				tc := tls.Server(conn, conf)
				tc.SetDeadline(time.Now().Add(30 * time.Second))
				if err := tc.Handshake(); err == nil && idx >= 0 {
					r.mu.Lock()
					r.Done[idx] = true
					r.mu.Unlock()
					// keep the connection until the client is done with it
					var b [1]byte
					tc.Read(b[:])
				}
			}()
		}
	}()
	return r, nil
}

func (r *Rogue) Close() {
	r.ln.Close()
	r.wg.Wait()
}

func (r *Rogue) String() string {
	r.mu.Lock()
	defer r.mu.Unlock()
	return fmt.Sprintf("%d connections, handshakes completed server-side: %v", len(r.Done), r.Done)
}

// Relay is a TCP front that forwards its first connection to one address and
// every later one to another (a network position between a node and its
// server: it lets the fetch handshake through and answers the authentication
// handshake itself).
type Relay struct {
	ln   net.Listener
	Addr string
	n    int32
	wg   sync.WaitGroup
}

func NewRelay(first, rest string) (*Relay, error) {
	ln, err := net.Listen("tcp", "127.0.0.1:0")
	if err != nil {
		return nil, err
	}
	r := &Relay{ln: ln, Addr: ln.Addr().String()}
	go func() {
		for {
			c, err := ln.Accept()
			if err != nil {
				return
			}
			target := rest
			if atomic.AddInt32(&r.n, 1) == 1 {
				target = first
			}
			r.wg.Add(1)
			go func() {
				defer r.wg.Done()
				defer c.Close()
				d, err := net.DialTimeout("tcp", target, 10*time.Second)
				if err != nil {
					return
				}
				defer d.Close()
				done := make(chan struct{}, 2)
				go func() { io.Copy(d, c); done <- struct{}{} }()
				go func() { io.Copy(c, d); done <- struct{}{} }()
				<-done
			}()
		}
	}()
	return r, nil
}

// Connections reports how many connections the relay has taken.
func (r *Relay) Connections() int { return int(atomic.LoadInt32(&r.n)) }

func (r *Relay) Close() {
	r.ln.Close()
	r.wg.Wait()
}
