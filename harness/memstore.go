package harness

import (
	"context"
	"errors"
	"fmt"
	"sort"
	"strings"
	"sync"

	"github.com/hashicorp/nodeenrollment"
	"github.com/hashicorp/nodeenrollment/types"
	"google.golang.org/protobuf/proto"
)

// Op is one logged storage call.
type Op struct {
	Call  string // Store | Load | Remove | List | LoadByNodeId
	Kind  string // roots | nodeinfo | nodecreds | token
	Id    string
	Bytes []byte // marshaled message handed to Store (or to Remove)
	Err   string
}

// MemStore is the harness implementation of nodeenrollment.Storage and
// NodeIdLoader: a typed map kind/id -> marshaled bytes that is deterministic,
// cloneable, recording and fault-injecting. It is harness, not a thing under
// test (the repository's back ends are under test in C19/C04).
type MemStore struct {
	mu   sync.Mutex
	data map[string][]byte

	Record bool
	Log    []Op

	// Calls counts storage calls; Faults maps a 1-based call number to the
	// error that call returns (the call then has no effect).
	Calls  int
	Faults map[int]error

	// NodeOrder, when set, is the order in which LoadByNodeId returns records
	// (by record id); ids not listed follow in sorted order.
	NodeOrder []string

	// StoreOnce makes Store refuse to overwrite a node record, returning the
	// pointer (DupForm 0) or value (DupForm 1) form of DuplicateRecordError.
	StoreOnce bool
	DupForm   int

	// EmptySetNoError makes LoadByNodeId report "no records under this node
	// id" as an empty set with a nil error instead of ErrNotFound (both are
	// plausible NodeIdLoader implementations).
	EmptySetNoError bool

	// Hook is called before every storage call (scheduling point under E2).
	Hook func(call, kind, id string)
}

var (
	_ nodeenrollment.Storage      = (*MemStore)(nil)
	_ nodeenrollment.NodeIdLoader = (*MemStore)(nil)
)

func NewMemStore() *MemStore { return &MemStore{data: map[string][]byte{}} }

// Clone copies the contents (not the log, faults or hooks).
func (m *MemStore) Clone() *MemStore {
	m.mu.Lock()
	defer m.mu.Unlock()
	c := NewMemStore()
	for k, v := range m.data {
		c.data[k] = v
	}
	c.NodeOrder = append([]string(nil), m.NodeOrder...)
	c.StoreOnce, c.DupForm, c.EmptySetNoError = m.StoreOnce, m.DupForm, m.EmptySetNoError
	return c
}

func kindOf(msg proto.Message) (string, error) {
	switch msg.(type) {
	case *types.NodeCredentials:
		return "nodecreds", nil
	case *types.NodeInformation:
		return "nodeinfo", nil
	case *types.RootCertificates:
		return "roots", nil
	case *types.ServerLedActivationToken:
		return "token", nil
	}
	return "", fmt.Errorf("memstore: unknown message type %T", msg)
}

// enter does the bookkeeping common to all calls and returns an injected
// fault, if any.
func (m *MemStore) enter(call, kind, id string) error {
	if m.Hook != nil {
		m.Hook(call, kind, id)
	}
	m.mu.Lock()
	defer m.mu.Unlock()
	m.Calls++
	if err, ok := m.Faults[m.Calls]; ok {
		if m.Record {
			m.Log = append(m.Log, Op{Call: call, Kind: kind, Id: id, Err: err.Error()})
		}
		return err
	}
	return nil
}

func (m *MemStore) log(op Op) {
	if m.Record {
		m.Log = append(m.Log, op)
	}
}

func (m *MemStore) Store(ctx context.Context, msg nodeenrollment.MessageWithId) error {
	if err := types.ValidateMessage(msg); err != nil {
		return err
	}
	kind, err := kindOf(msg)
	if err != nil {
		return err
	}
	id := msg.GetId()
	if id == "" {
		return errors.New("memstore: no id")
	}
	if err := m.enter("Store", kind, id); err != nil {
		return err
	}
	b, err := proto.Marshal(msg)
	if err != nil {
		return err
	}
	m.mu.Lock()
	defer m.mu.Unlock()
	if m.StoreOnce && kind == "nodeinfo" {
		if _, ok := m.data[kind+"/"+id]; ok {
			m.log(Op{Call: "Store", Kind: kind, Id: id, Bytes: b, Err: "duplicate"})
			if m.DupForm == 0 {
				return new(types.DuplicateRecordError)
			}
			return types.DuplicateRecordError{}
		}
	}
	m.data[kind+"/"+id] = b
	m.log(Op{Call: "Store", Kind: kind, Id: id, Bytes: b})
	return nil
}

func (m *MemStore) Load(ctx context.Context, msg nodeenrollment.MessageWithId) error {
	if err := types.ValidateMessage(msg); err != nil {
		return err
	}
	kind, err := kindOf(msg)
	if err != nil {
		return err
	}
	id := msg.GetId()
	if id == "" {
		return errors.New("memstore: no id")
	}
	if err := m.enter("Load", kind, id); err != nil {
		return err
	}
	m.mu.Lock()
	defer m.mu.Unlock()
	b, ok := m.data[kind+"/"+id]
	if !ok {
		m.log(Op{Call: "Load", Kind: kind, Id: id, Err: "not found"})
		return nodeenrollment.ErrNotFound
	}
	m.log(Op{Call: "Load", Kind: kind, Id: id})
	return proto.Unmarshal(b, msg)
}

func (m *MemStore) Remove(ctx context.Context, msg nodeenrollment.MessageWithId) error {
	if err := types.ValidateMessage(msg); err != nil {
		return err
	}
	kind, err := kindOf(msg)
	if err != nil {
		return err
	}
	id := msg.GetId()
	if id == "" {
		return errors.New("memstore: no id")
	}
	if err := m.enter("Remove", kind, id); err != nil {
		return err
	}
	m.mu.Lock()
	defer m.mu.Unlock()
	delete(m.data, kind+"/"+id)
	// (the message handed to Remove is recorded too: it reaches the storage
	// implementation just like one handed to Store)
	rb, _ := proto.Marshal(msg)
	m.log(Op{Call: "Remove", Kind: kind, Id: id, Bytes: rb})
	return nil
}

func (m *MemStore) List(ctx context.Context, msg proto.Message) ([]string, error) {
	kind, err := kindOf(msg)
	if err != nil {
		return nil, err
	}
	if kind == "token" {
		return nil, fmt.Errorf("memstore: type %T cannot be listed", msg)
	}
	if err := m.enter("List", kind, ""); err != nil {
		return nil, err
	}
	m.mu.Lock()
	defer m.mu.Unlock()
	m.log(Op{Call: "List", Kind: kind})
	return m.idsLocked(kind), nil
}

func (m *MemStore) idsLocked(kind string) []string {
	var out []string
	for k := range m.data {
		if strings.HasPrefix(k, kind+"/") {
			out = append(out, strings.TrimPrefix(k, kind+"/"))
		}
	}
	sort.Strings(out)
	return out
}

// LoadByNodeId returns the node records whose node_id matches, in NodeOrder.
func (m *MemStore) LoadByNodeId(ctx context.Context, msg nodeenrollment.MessageWithNodeId) error {
	if msg.GetNodeId() == "" {
		return errors.New("memstore: node id is required")
	}
	set, ok := msg.(*types.NodeInformationSet)
	if !ok {
		return fmt.Errorf("memstore: unsupported type %T", msg)
	}
	if err := m.enter("LoadByNodeId", "nodeinfo", msg.GetNodeId()); err != nil {
		return err
	}
	m.mu.Lock()
	defer m.mu.Unlock()
	m.log(Op{Call: "LoadByNodeId", Kind: "nodeinfo", Id: msg.GetNodeId()})
	ids := m.idsLocked("nodeinfo")
	rank := map[string]int{}
	for i, id := range m.NodeOrder {
		rank[id] = i + 1
	}
	sort.SliceStable(ids, func(i, j int) bool {
		ri, rj := rank[ids[i]], rank[ids[j]]
		switch {
		case ri != 0 && rj != 0:
			return ri < rj
		case ri != 0:
			return true
		case rj != 0:
			return false
		}
		return ids[i] < ids[j]
	})
	var nodes []*types.NodeInformation
	for _, id := range ids {
		n := new(types.NodeInformation)
		if err := proto.Unmarshal(m.data["nodeinfo/"+id], n); err != nil {
			return err
		}
		if n.NodeId == msg.GetNodeId() {
			nodes = append(nodes, n)
		}
	}
	if len(nodes) == 0 && !m.EmptySetNoError {
		return nodeenrollment.ErrNotFound
	}
	set.Nodes = nodes
	return nil
}

// ---- harness-side access (no logging, no faults)

func (m *MemStore) Raw(kind, id string) ([]byte, bool) {
	m.mu.Lock()
	defer m.mu.Unlock()
	b, ok := m.data[kind+"/"+id]
	return b, ok
}

func (m *MemStore) SetRaw(kind, id string, b []byte) {
	m.mu.Lock()
	defer m.mu.Unlock()
	m.data[kind+"/"+id] = b
}

func (m *MemStore) DeleteRaw(kind, id string) {
	m.mu.Lock()
	defer m.mu.Unlock()
	delete(m.data, kind+"/"+id)
}

func (m *MemStore) Ids(kind string) []string {
	m.mu.Lock()
	defer m.mu.Unlock()
	return m.idsLocked(kind)
}

// Keys returns every kind/id present, sorted.
func (m *MemStore) Keys() []string {
	m.mu.Lock()
	defer m.mu.Unlock()
	var out []string
	for k := range m.data {
		out = append(out, k)
	}
	sort.Strings(out)
	return out
}

// Snapshot returns a copy of the contents.
func (m *MemStore) Snapshot() map[string][]byte {
	m.mu.Lock()
	defer m.mu.Unlock()
	out := make(map[string][]byte, len(m.data))
	for k, v := range m.data {
		out[k] = v
	}
	return out
}

// NodeInfo unmarshals a stored node record as stored (no unwrapping).
func (m *MemStore) NodeInfo(id string) *types.NodeInformation {
	b, ok := m.Raw("nodeinfo", id)
	if !ok {
		return nil
	}
	n := new(types.NodeInformation)
	if err := proto.Unmarshal(b, n); err != nil {
		panic(err)
	}
	return n
}

// PutNodeInfo writes a node record directly (harness-side edit).
func (m *MemStore) PutNodeInfo(n *types.NodeInformation) {
	b, err := proto.Marshal(n)
	if err != nil {
		panic(err)
	}
	m.SetRaw("nodeinfo", n.Id, b)
}

func (m *MemStore) ResetLog() {
	m.mu.Lock()
	m.Log = nil
	m.Calls = 0
	m.mu.Unlock()
}

// Writes returns the logged successful Store/Remove calls.
func (m *MemStore) Writes() []Op {
	m.mu.Lock()
	defer m.mu.Unlock()
	var out []Op
	for _, o := range m.Log {
		if (o.Call == "Store" || o.Call == "Remove") && o.Err == "" {
			out = append(out, o)
		}
	}
	return out
}

// Plain hides LoadByNodeId: a Storage that is not a NodeIdLoader.
type Plain struct{ S *MemStore }

var _ nodeenrollment.Storage = Plain{}

func (p Plain) Store(ctx context.Context, msg nodeenrollment.MessageWithId) error {
	return p.S.Store(ctx, msg)
}
func (p Plain) Load(ctx context.Context, msg nodeenrollment.MessageWithId) error {
	return p.S.Load(ctx, msg)
}
func (p Plain) Remove(ctx context.Context, msg nodeenrollment.MessageWithId) error {
	return p.S.Remove(ctx, msg)
}
func (p Plain) List(ctx context.Context, msg proto.Message) ([]string, error) {
	return p.S.List(ctx, msg)
}
