package harness

import (
	"context"
	"crypto"
	"crypto/ed25519"
	"crypto/tls"
	"crypto/x509"
	"encoding/base64"
	"fmt"
	"math/big"
	"net"
	"os"
	"path/filepath"
	"strings"
	"sync"
	"sync/atomic"
	"time"

	"github.com/hashicorp/nodeenrollment"
	"github.com/hashicorp/nodeenrollment/protocol"
	"github.com/hashicorp/nodeenrollment/registration"
	nodetls "github.com/hashicorp/nodeenrollment/tls"
	"github.com/hashicorp/nodeenrollment/types"
	"google.golang.org/protobuf/proto"
	"google.golang.org/protobuf/types/known/structpb"
)

// AcceptResult is what one InterceptingListener.Accept call produced.
type AcceptResult struct {
	Conn          net.Conn
	Err           error
	Panic         string
	Temporary     bool
	Closed        bool // net.ErrClosed
	Authenticated bool // negotiated protocol carries the node-authentication prefix
	Proto         string
	State         *structpb.Struct
	NextProtos    []string
	PeerKeyPkix   []byte
}

func (a AcceptResult) String() string {
	switch {
	case a.Panic != "":
		return "panic: " + a.Panic
	case a.Err != nil:
		return fmt.Sprintf("error(temporary=%v): %v", a.Temporary, a.Err)
	case a.Authenticated:
		return "authenticated connection"
	}
	return "unauthenticated connection (proto " + a.Proto + ")"
}

type countingListener struct {
	net.Listener
	n int64
}

func (c *countingListener) Accept() (net.Conn, error) {
	conn, err := c.Listener.Accept()
	if err == nil {
		atomic.AddInt64(&c.n, 1)
	}
	return conn, err
}

// ServerConfig configures a one-shot server.
type ServerConfig struct {
	Storage  nodeenrollment.Storage
	Options  []nodeenrollment.Option
	BaseTLS  *tls.Config
	Unix     bool
	FetchFn  protocol.FetchCredsFn
	GenFn    protocol.GenerateServerCertificatesFn
	BaseWrap func(net.Listener) net.Listener
}

var sockSeq int64

// Serve runs a fresh InterceptingListener on a loopback socket, calls client
// with its address, and returns the result of every Accept the client's
// connections caused, in order. The 60 s guard is infrastructure only.
func Serve(cfg ServerConfig, client func(addr string)) ([]AcceptResult, error) {
	var base net.Listener
	var err error
	addr := ""
	if cfg.Unix {
		dir := filepath.Join(os.TempDir(), fmt.Sprintf("vf-%d", os.Getpid()))
		os.MkdirAll(dir, 0o700)
		addr = filepath.Join(dir, fmt.Sprintf("s%d.sock", atomic.AddInt64(&sockSeq, 1)))
		os.Remove(addr)
		base, err = net.Listen("unix", addr)
		defer os.Remove(addr)
	} else {
		base, err = net.Listen("tcp", "127.0.0.1:0")
		if err == nil {
			addr = base.Addr().String()
		}
	}
	if err != nil {
		return nil, err
	}
	cl := &countingListener{Listener: base}
	var wrapped net.Listener = cl
	if cfg.BaseWrap != nil {
		wrapped = cfg.BaseWrap(cl)
	}
	ln, err := protocol.NewInterceptingListener(&protocol.InterceptingListenerConfiguration{
		Context: context.Background(), Storage: cfg.Storage, BaseListener: wrapped, BaseTlsConfiguration: cfg.BaseTLS, Options: cfg.Options,
		FetchCredsFunc: cfg.FetchFn, GenerateServerCertificatesFunc: cfg.GenFn,
	})
	if err != nil {
		base.Close()
		return nil, err
	}
	var mu sync.Mutex
	var results []AcceptResult
	done := make(chan struct{})
	go func() {
		defer close(done)
		nonTemp := 0
		for {
			r := AcceptOnce(ln)
			if r.Closed {
				return
			}
			mu.Lock()
			results = append(results, r)
			mu.Unlock()
			// a non-temporary error would make an application stop accepting;
			// the harness keeps going so that the case can be judged and the
			// client side never waits for a listener that went away
			if r.Err != nil && !r.Temporary && r.Panic == "" {
				nonTemp++
				if nonTemp > 50 {
					return
				}
			}
		}
	}()
	client(addr)
	deadline := time.Now().Add(60 * time.Second)
	for {
		mu.Lock()
		n := len(results)
		mu.Unlock()
		if int64(n) >= atomic.LoadInt64(&cl.n) {
			break
		}
		if time.Now().After(deadline) {
			ln.Close()
			return results, fmt.Errorf("INFRA: server did not finish its accepts within the guard interval")
		}
		time.Sleep(200 * time.Microsecond)
	}
	ln.Close()
	<-done
	return results, nil
}

// AcceptOnce calls Accept under recover and classifies the result.
func AcceptOnce(ln net.Listener) (r AcceptResult) {
	defer func() {
		if p := recover(); p != nil {
			r.Panic = fmt.Sprint(p)
		}
	}()
	conn, err := ln.Accept()
	r.Conn, r.Err = conn, err
	if err != nil {
		// the listener reports its own closure with exactly net.ErrClosed; a
		// handshake error may *mention* a closed connection (the peer's, or a
		// faulted one) and is not that
		if err == net.ErrClosed {
			r.Closed = true
		}
		if t, ok := err.(interface{ Temporary() bool }); ok && t.Temporary() {
			r.Temporary = true
		}
		return r
	}
	if pc, ok := conn.(*protocol.Conn); ok {
		cs := pc.Conn.ConnectionState()
		r.Proto = cs.NegotiatedProtocol
		r.Authenticated = strings.HasPrefix(cs.NegotiatedProtocol, nodeenrollment.AuthenticateNodeNextProtoV1Prefix)
		r.State = pc.ClientState()
		r.NextProtos = pc.ClientNextProtos()
		if len(cs.PeerCertificates) > 0 {
			r.PeerKeyPkix, _ = x509.MarshalPKIXPublicKey(cs.PeerCertificates[0].PublicKey)
		}
	}
	return r
}

// CloseAll closes the connections of the results.
func CloseAll(rs []AcceptResult) {
	for _, r := range rs {
		// (an Accept that fails may hand back a nil pointer inside the interface)
		if r.Conn != nil && !nodeenrollment.IsNil(r.Conn) {
			r.Conn.Close()
		}
	}
}

// ---------------------------------------------------------------------------
// hand-built node-authentication client

// AuthClient describes a hand-built TLS 1.3 client speaking the
// node-authentication ALPN protocol.
type AuthClient struct {
	Request     *types.GenerateServerCertificatesRequest // marshaled into the ALPN value
	RawRequest  []byte                                   // overrides Request when set (mutations)
	Chain       [][]byte                                 // certificate chain to present (leaf first)
	Key         crypto.Signer                            // key used for the TLS possession proof
	Preference  string                                   // certificate-preference entry value ("" = none)
	ExtraProtos []string
	FirstProtos []string // entries placed before the library's
	PrefPos     int      // where the preference entry goes: 0 last, 1 first, 2 after the first request chunk
	WaitVerdict bool     // after the handshake, wait briefly for the server's verdict on the client certificate
}

// NextProtos assembles the ALPN list.
func (a *AuthClient) NextProtos() []string {
	raw := a.RawRequest
	if raw == nil {
		var err error
		raw, err = proto.Marshal(a.Request)
		if err != nil {
			panic(err)
		}
	}
	np, err := nodetls.BreakIntoNextProtos(nodeenrollment.AuthenticateNodeNextProtoV1Prefix, base64.RawStdEncoding.EncodeToString(raw))
	if err != nil {
		panic(err)
	}
	pref := nodeenrollment.CertificatePreferenceV1Prefix + a.Preference
	out := append([]string{}, a.FirstProtos...)
	if a.Preference != "" && a.PrefPos == 1 {
		out = append(out, pref)
	}
	for i, p := range np {
		out = append(out, p)
		if a.Preference != "" && a.PrefPos == 2 && i == 0 {
			out = append(out, pref)
		}
	}
	out = append(out, a.ExtraProtos...)
	if a.Preference != "" && a.PrefPos == 0 {
		out = append(out, pref)
	}
	return out
}

// Connect performs the handshake against addr and returns the client-side
// connection (nil on failure) and error. The server certificate is not
// verified: the client is the adversary here.
func (a *AuthClient) Connect(addr string) (*tls.Conn, error) {
	network := "tcp"
	if strings.HasPrefix(addr, "/") {
		network = "unix"
	}
	raw, err := net.DialTimeout(network, addr, 10*time.Second)
	if err != nil {
		return nil, err
	}
	conf := &tls.Config{
		MinVersion:         tls.VersionTLS13,
		InsecureSkipVerify: true,
		NextProtos:         a.NextProtos(),
		GetClientCertificate: func(*tls.CertificateRequestInfo) (*tls.Certificate, error) {
			return &tls.Certificate{Certificate: a.Chain, PrivateKey: a.Key}, nil
		},
	}
	c := tls.Client(raw, conf)
	c.SetDeadline(time.Now().Add(30 * time.Second))
	if err := c.Handshake(); err != nil {
		raw.Close()
		return nil, err
	}
	if !a.WaitVerdict {
		c.SetDeadline(time.Time{})
		return c, nil
	}
	// TLS 1.3: the server verifies the client certificate after the client is
	// done; one read surfaces its verdict (alert) if it rejects
	c.SetReadDeadline(time.Now().Add(20 * time.Millisecond))
	var b [1]byte
	_, rerr := c.Read(b[:])
	if rerr != nil {
		if ne, ok := rerr.(net.Error); ok && ne.Timeout() {
			c.SetDeadline(time.Time{})
			return c, nil
		}
		raw.Close()
		return nil, rerr
	}
	c.SetDeadline(time.Time{})
	return c, nil
}

// Enrolled is an honestly enrolled node: pool keys, its node-side storage and
// its server record.
type Enrolled struct {
	K     *CertKey
	E     *EncKey
	Store *MemStore // node-side storage holding its credentials
	Creds *types.NodeCredentials
}

// Enroll authorizes the node (k, e) on the server storage the operator-led way
// and lets the node handle the response, all through the real API.
func Enroll(server nodeenrollment.Storage, k *CertKey, e *EncKey, nonce []byte, serverOpt []nodeenrollment.Option, nodeOpt []nodeenrollment.Option) (*Enrolled, error) {
	nd := NewMemStore()
	creds := NodeCreds(k, e, nonce)
	if err := creds.Store(Ctx, nd, nodeOpt...); err != nil {
		return nil, err
	}
	req, err := creds.CreateFetchNodeCredentialsRequest(Ctx, nodeOpt...)
	if err != nil {
		return nil, err
	}
	if _, err := registration.AuthorizeNode(Ctx, server, req, serverOpt...); err != nil {
		return nil, err
	}
	resp, err := registration.FetchNodeCredentials(Ctx, server, req, serverOpt...)
	if err != nil {
		return nil, err
	}
	out, err := creds.HandleFetchNodeCredentialsResponse(Ctx, nd, resp, nodeOpt...)
	if err != nil {
		return nil, err
	}
	return &Enrolled{K: k, E: e, Store: nd, Creds: out}, nil
}

// LeafFor returns the (leaf, ca) DER of the node's chain under the CA with the given key id.
func (e *Enrolled) Chains() [][2][]byte {
	var out [][2][]byte
	for _, b := range e.Creds.CertificateBundles {
		out = append(out, [2][]byte{b.CertificateDer, b.CaCertificateDer})
	}
	return out
}

// CaKeyId derives the library key id of a CA certificate.
func CaKeyId(caDer []byte) string {
	c, err := x509.ParseCertificate(caDer)
	if err != nil {
		panic(err)
	}
	pk, err := x509.MarshalPKIXPublicKey(c.PublicKey)
	if err != nil {
		panic(err)
	}
	id, err := nodeenrollment.KeyIdFromPkix(pk)
	if err != nil {
		panic(err)
	}
	return id
}

var _ = ed25519.PrivateKey{}

// SelfSignedCert returns a self-signed certificate for k.
func SelfSignedCert(k *CertKey, name string) []byte {
	tmpl := &x509.Certificate{AuthorityKeyId: k.Pkix, SubjectKeyId: k.Pkix, ExtKeyUsage: []x509.ExtKeyUsage{x509.ExtKeyUsageClientAuth, x509.ExtKeyUsageServerAuth},
		DNSNames: []string{name}, KeyUsage: x509.KeyUsageDigitalSignature | x509.KeyUsageCertSign, SerialNumber: big.NewInt(11),
		NotBefore: time.Now().Add(-24 * time.Hour), NotAfter: time.Now().Add(24 * time.Hour * 3650), BasicConstraintsValid: true, IsCA: true}
	der, err := x509.CreateCertificate(DetRand("selfsigned:"+k.Name), tmpl, tmpl, k.Pub, k.Priv)
	if err != nil {
		panic(err)
	}
	return der
}

// SelfSignedCertNoNames is a self-signed certificate of k's key without any
// subject alternative name (and without a common name).
func SelfSignedCertNoNames(k *CertKey) []byte {
	tmpl := &x509.Certificate{SubjectKeyId: k.Pkix, ExtKeyUsage: []x509.ExtKeyUsage{x509.ExtKeyUsageClientAuth},
		KeyUsage: x509.KeyUsageDigitalSignature, SerialNumber: big.NewInt(13),
		NotBefore: time.Now().Add(-24 * time.Hour), NotAfter: time.Now().Add(24 * time.Hour * 3650)}
	der, err := x509.CreateCertificate(DetRand("selfsigned-nonames:"+k.Name), tmpl, tmpl, k.Pub, k.Priv)
	if err != nil {
		panic(err)
	}
	return der
}

// SelfSignedCertWithSKI is a self-signed certificate of k's key whose subject key id claims ski.
func SelfSignedCertWithSKI(k *CertKey, ski []byte) []byte {
	tmpl := &x509.Certificate{AuthorityKeyId: ski, SubjectKeyId: ski, ExtKeyUsage: []x509.ExtKeyUsage{x509.ExtKeyUsageClientAuth},
		DNSNames: []string{nodeenrollment.CommonDnsName}, KeyUsage: x509.KeyUsageDigitalSignature | x509.KeyUsageCertSign, SerialNumber: big.NewInt(12),
		NotBefore: time.Now().Add(-24 * time.Hour), NotAfter: time.Now().Add(24 * time.Hour * 3650), BasicConstraintsValid: true, IsCA: true}
	der, err := x509.CreateCertificate(DetRand("selfsigned-ski:"+k.Name), tmpl, tmpl, k.Pub, k.Priv)
	if err != nil {
		panic(err)
	}
	return der
}
