package harness

import (
	"bytes"
	"crypto/ecdh"
	"fmt"
	"time"

	wrapping "github.com/hashicorp/go-kms-wrapping/v2"
	"github.com/hashicorp/nodeenrollment"
	"github.com/hashicorp/nodeenrollment/registration"
	"github.com/hashicorp/nodeenrollment/rotation"
	"github.com/hashicorp/nodeenrollment/types"
	vclock "github.com/hashicorp/nodeenrollment/zz_verif/vclock"
	"github.com/mr-tron/base58"
	"google.golang.org/protobuf/proto"
	"google.golang.org/protobuf/types/known/timestamppb"
)

// T0 is the base instant of virtual-time checks.
var T0 = time.Date(2030, 1, 1, 0, 0, 0, 0, time.UTC)

// Info builds the request bundle of a node holding (k, e) with the given
// nonce, valid from the virtual now for the default fetch lifetime.
func Info(k *CertKey, e *EncKey, nonce []byte) *types.FetchNodeCredentialsInfo {
	now := vclock.Peek()
	return &types.FetchNodeCredentialsInfo{
		CertificatePublicKeyPkix: k.Pkix,
		CertificatePublicKeyType: types.KEYTYPE_ED25519,
		Nonce:                    nonce,
		EncryptionPublicKeyBytes: e.Pub,
		EncryptionPublicKeyType:  types.KEYTYPE_X25519,
		NotBefore:                timestamppb.New(now),
		NotAfter:                 timestamppb.New(now.Add(nodeenrollment.DefaultFetchCredentialsLifetime)),
	}
}

// SealRegistrationInfo seals registration info with a registration wrapper
// the way CreateFetchNodeCredentialsRequest does.
func SealRegistrationInfo(w wrapping.Wrapper, pkix, nonce []byte) []byte {
	b, err := proto.Marshal(&types.WrappingRegistrationFlowInfo{CertificatePublicKeyPkix: pkix, Nonce: nonce})
	if err != nil {
		panic(err)
	}
	blob, err := w.Encrypt(Ctx, b)
	if err != nil {
		panic(err)
	}
	out, err := proto.Marshal(blob)
	if err != nil {
		panic(err)
	}
	return out
}

// Token is an activation token created through the real API.
type Token struct {
	Name   string
	Id     string // storage id
	String string // what the operator hands to the node
	Bytes  []byte // the nonce bytes a request carries
}

// CreateToken calls the real CreateServerLedActivationToken with a
// deterministic random source so that the same name yields the same token.
func CreateToken(st nodeenrollment.Storage, name string, seed int64, opt ...nodeenrollment.Option) (*Token, error) {
	opt = append([]nodeenrollment.Option{nodeenrollment.WithRandomReader(DetRand(fmt.Sprintf("token:%s:%d", name, seed)))}, opt...)
	id, tok, err := registration.CreateServerLedActivationToken(Ctx, st, &types.ServerLedRegistrationRequest{}, opt...)
	if err != nil {
		return nil, err
	}
	b, err := base58.FastBase58Decoding(tok[len(nodeenrollment.ServerLedActivationTokenPrefix):])
	if err != nil {
		return nil, err
	}
	return &Token{Name: name, Id: id, String: tok, Bytes: b}, nil
}

// TokenPreview computes the token a CreateToken call would produce without
// touching storage.
func TokenPreview(name string, seed int64) *Token {
	t, err := CreateToken(nil, name, seed, nodeenrollment.WithSkipStorage(true))
	if err != nil {
		panic(err)
	}
	return t
}

// ForgedToken is a well-formed token nonce this server never issued.
func ForgedToken(seed int64) []byte {
	b, err := proto.Marshal(&types.ServerLedActivationTokenNonce{Nonce: Bytes(fmt.Sprintf("forged-nonce:%d", seed), 32), HmacKeyBytes: Bytes(fmt.Sprintf("forged-hmac:%d", seed), 32)})
	if err != nil {
		panic(err)
	}
	return b
}

// InitRoots creates the server's roots in st at the current virtual time.
func InitRoots(st nodeenrollment.Storage, opt ...nodeenrollment.Option) *types.RootCertificates {
	r, err := rotation.RotateRootCertificates(Ctx, st, opt...)
	if err != nil {
		panic(err)
	}
	return r
}

// ServerPub returns the server's public encryption key recorded (in clear) in a node record.
func ServerPub(n *types.NodeInformation) []byte {
	k, err := ecdh.X25519().NewPrivateKey(n.ServerEncryptionPrivateKeyBytes)
	if err != nil {
		panic(err)
	}
	return k.PublicKey().Bytes()
}

// OpenResponse tries to open a fetch response as the node holding (k, e) and
// returns the decrypted credentials.
func OpenResponse(resp *types.FetchNodeCredentialsResponse, k *CertKey, e *EncKey) (*types.NodeCredentials, error) {
	n := NodeCreds(k, e, nil)
	n.ServerEncryptionPublicKeyBytes = resp.ServerEncryptionPublicKeyBytes
	n.ServerEncryptionPublicKeyType = resp.ServerEncryptionPublicKeyType
	out := new(types.NodeCredentials)
	if err := nodeenrollment.DecryptMessage(Ctx, resp.EncryptedNodeCredentials, n, out); err != nil {
		return nil, err
	}
	return out, nil
}

// HasCreds reports whether a fetch response carries credentials.
func HasCreds(resp *types.FetchNodeCredentialsResponse) bool {
	return resp != nil && len(resp.EncryptedNodeCredentials) > 0
}

// Lookup names a byte string by the pool member it equals.
func Lookup(b []byte, names map[string][]byte) string {
	for n, v := range names {
		if bytes.Equal(b, v) {
			return n
		}
	}
	if len(b) == 0 {
		return "-"
	}
	return fmt.Sprintf("?%x", Bytes(string(b), 3))
}

// KeyIdOf derives the library key id of a PKIX key (panics on error).
func KeyIdOf(pkix []byte) string {
	id, err := nodeenrollment.KeyIdFromPkix(pkix)
	if err != nil {
		panic(err)
	}
	return id
}

// ParseToken decodes an activation token string into its nonce and HMAC key.
func ParseToken(token string) (*types.ServerLedActivationTokenNonce, error) {
	if len(token) <= len(nodeenrollment.ServerLedActivationTokenPrefix) {
		return nil, fmt.Errorf("token too short")
	}
	b, err := base58.FastBase58Decoding(token[len(nodeenrollment.ServerLedActivationTokenPrefix):])
	if err != nil {
		return nil, err
	}
	tn := new(types.ServerLedActivationTokenNonce)
	if err := proto.Unmarshal(b, tn); err != nil {
		return nil, err
	}
	return tn, nil
}
