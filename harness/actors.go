// Package harness holds the parts shared by the checks: deterministic key
// material, the harness store, hand-built requests and TLS peers.
package harness

import (
	"context"
	"crypto/ecdh"
	"crypto/ed25519"
	"crypto/sha256"
	"crypto/x509"
	"encoding/binary"
	"fmt"
	"io"

	wrapping "github.com/hashicorp/go-kms-wrapping/v2"
	"github.com/hashicorp/go-kms-wrapping/v2/aead"
	"github.com/hashicorp/nodeenrollment"
	"github.com/hashicorp/nodeenrollment/types"
	"google.golang.org/protobuf/proto"
	"google.golang.org/protobuf/types/known/structpb"
)

// detReader is a deterministic byte stream (SHA-256 in counter mode).
type detReader struct {
	seed []byte
	ctr  uint64
	buf  []byte
}

// DetRand returns a deterministic reader for the given label.
func DetRand(label string) io.Reader {
	h := sha256.Sum256([]byte("verif-det-rand:" + label))
	return &detReader{seed: h[:]}
}

func (d *detReader) Read(p []byte) (int, error) {
	n := 0
	for n < len(p) {
		if len(d.buf) == 0 {
			var c [8]byte
			binary.BigEndian.PutUint64(c[:], d.ctr)
			d.ctr++
			h := sha256.Sum256(append(append([]byte{}, d.seed...), c[:]...))
			d.buf = h[:]
		}
		k := copy(p[n:], d.buf)
		d.buf = d.buf[k:]
		n += k
	}
	return n, nil
}

// Bytes returns n deterministic bytes for a label.
func Bytes(label string, n int) []byte {
	b := make([]byte, n)
	DetRand(label).Read(b)
	return b
}

// CertKey is an Ed25519 certificate key of the pool.
type CertKey struct {
	Name  string
	Pub   ed25519.PublicKey
	Priv  ed25519.PrivateKey
	Pkix  []byte
	Pkcs8 []byte
	KeyId string
}

func NewCertKey(name string, seed int64) *CertKey {
	pub, priv, err := ed25519.GenerateKey(DetRand(fmt.Sprintf("cert:%s:%d", name, seed)))
	if err != nil {
		panic(err)
	}
	pkix, keyId, err := nodeenrollment.SubjectKeyInfoAndKeyIdFromPubKey(pub)
	if err != nil {
		panic(err)
	}
	pkcs8, err := x509.MarshalPKCS8PrivateKey(priv)
	if err != nil {
		panic(err)
	}
	return &CertKey{Name: name, Pub: pub, Priv: priv, Pkix: pkix, Pkcs8: pkcs8, KeyId: keyId}
}

func (k *CertKey) Sign(msg []byte) []byte { return ed25519.Sign(k.Priv, msg) }

// EncKey is an X25519 key pair of the pool.
type EncKey struct {
	Name string
	Priv []byte
	Pub  []byte
}

func NewEncKey(name string, seed int64) *EncKey {
	priv := Bytes(fmt.Sprintf("enc:%s:%d", name, seed), 32)
	k, err := ecdh.X25519().NewPrivateKey(priv)
	if err != nil {
		panic(err)
	}
	return &EncKey{Name: name, Priv: priv, Pub: k.PublicKey().Bytes()}
}

// Wrapper returns a real AEAD wrapper (honours associated data).
func Wrapper(keyId string, seed int64) wrapping.Wrapper {
	w := aead.NewWrapper()
	_, err := w.SetConfig(context.Background(), wrapping.WithKeyId(keyId), aead.WithKey(Bytes(fmt.Sprintf("wrapper:%s:%d", keyId, seed), 32)))
	if err != nil {
		panic(err)
	}
	return w
}

// SafeWrapper guards the AEAD dependency's unchecked ciphertext[:12] slice so
// that the robustness of an application-supplied wrapper is not what a check
// measures (used where remote bytes reach the *registration* wrapper).
type SafeWrapper struct{ wrapping.Wrapper }

func (s SafeWrapper) Decrypt(ctx context.Context, in *wrapping.BlobInfo, opt ...wrapping.Option) ([]byte, error) {
	if in == nil || len(in.Ciphertext) < 12 {
		return nil, fmt.Errorf("ciphertext too short")
	}
	return s.Wrapper.Decrypt(ctx, in, opt...)
}

// Pool is the fixed actor pool of a run.
type Pool struct {
	Seed int64
	K    []*CertKey // certificate keys K1,K2,K3,...
	E    []*EncKey  // node encryption keys
	S    []*EncKey  // server encryption keys (where the harness picks them)
	N    [][]byte   // 32-byte nonces
}

func NewPool(seed int64, nk, ne, ns, nn int) *Pool {
	p := &Pool{Seed: seed}
	for i := 0; i < nk; i++ {
		p.K = append(p.K, NewCertKey(fmt.Sprintf("K%d", i+1), seed))
	}
	for i := 0; i < ne; i++ {
		p.E = append(p.E, NewEncKey(fmt.Sprintf("E%d", i+1), seed))
	}
	for i := 0; i < ns; i++ {
		p.S = append(p.S, NewEncKey(fmt.Sprintf("S%d", i+1), seed))
	}
	for i := 0; i < nn; i++ {
		p.N = append(p.N, Bytes(fmt.Sprintf("nonce:%d:%d", i+1, seed), nodeenrollment.NonceSize))
	}
	return p
}

// NodeCreds builds (unstored) node credentials for the given pool members.
func NodeCreds(k *CertKey, e *EncKey, nonce []byte) *types.NodeCredentials {
	return &types.NodeCredentials{
		Id:                         string(nodeenrollment.CurrentId),
		CertificatePublicKeyPkix:   k.Pkix,
		CertificatePrivateKeyPkcs8: k.Pkcs8,
		CertificatePrivateKeyType:  types.KEYTYPE_ED25519,
		EncryptionPrivateKeyBytes:  e.Priv,
		EncryptionPrivateKeyType:   types.KEYTYPE_X25519,
		RegistrationNonce:          nonce,
	}
}

// SignedRequest marshals and signs a hand-built request info with the given key
// (well-signed, possibly adversarial content).
func SignedRequest(info *types.FetchNodeCredentialsInfo, signer *CertKey) *types.FetchNodeCredentialsRequest {
	b, err := proto.Marshal(info)
	if err != nil {
		panic(err)
	}
	return &types.FetchNodeCredentialsRequest{Bundle: b, BundleSignature: signer.Sign(b)}
}

// Struct builds a structpb.Struct or panics.
func Struct(m map[string]any) *structpb.Struct {
	s, err := structpb.NewStruct(m)
	if err != nil {
		panic(err)
	}
	return s
}

var Ctx = context.Background()
