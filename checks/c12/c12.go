// Package c12: a storage wrapper keeps key material out of storage and binds
// it to its record (E4: every record type x optional-field combination x
// writing flow, and every transplant of a sealed field, with the bytes handed
// to storage recorded by the harness store).
package c12

import (
	"bytes"
	"context"
	"crypto/ed25519"
	"crypto/x509"
	"encoding/json"
	"errors"
	"fmt"
	"github.com/hashicorp/go-kms-wrapping/v2/extras/multi"
	"google.golang.org/protobuf/types/known/timestamppb"
	"sort"
	"strings"
	"time"

	wrapping "github.com/hashicorp/go-kms-wrapping/v2"
	"github.com/hashicorp/nodeenrollment"
	"github.com/hashicorp/nodeenrollment/registration"
	"github.com/hashicorp/nodeenrollment/rotation"
	"github.com/hashicorp/nodeenrollment/types"
	vclock "github.com/hashicorp/nodeenrollment/zz_verif/vclock"
	"google.golang.org/protobuf/proto"
	"verif/engine"
	"verif/harness"
)

type world struct {
	seed  int64
	s, sx wrapping.Wrapper
	rw    wrapping.Wrapper
	k     map[string]*harness.CertKey
	e     map[string]*harness.EncKey
}

func newWorld(seed int64) *world {
	w := &world{seed: seed, s: harness.Wrapper("storage", seed), sx: harness.Wrapper("other-storage", seed), rw: harness.Wrapper("registration", seed),
		k: map[string]*harness.CertKey{}, e: map[string]*harness.EncKey{}}
	for _, n := range []string{"K1", "K2", "K3", "K4"} {
		w.k[n] = harness.NewCertKey(n, seed)
		w.e[n] = harness.NewEncKey("E-"+n, seed)
	}
	return w
}

func (w *world) opt() nodeenrollment.Option { return nodeenrollment.WithStorageWrapper(w.s) }

// secret is a value that must never be handed to storage in clear.
type secret struct {
	What  string
	Bytes []byte
}

func keySecrets(what string, pkcs8 []byte) []secret {
	out := []secret{{what + " (PKCS8)", pkcs8}}
	if k, err := x509.ParsePKCS8PrivateKey(pkcs8); err == nil {
		if ed, ok := k.(ed25519.PrivateKey); ok {
			out = append(out, secret{what + " (raw seed)", ed.Seed()})
		}
	}
	return out
}

// secretsOf lists the secrets of an (unwrapped) record.
func secretsOf(m proto.Message) []secret {
	var out []secret
	prev := func(p *types.EncryptionKey) {
		if p != nil && len(p.PrivateKeyPkcs8) > 0 {
			out = append(out, secret{"previous_encryption_key.private_key", p.PrivateKeyPkcs8})
		}
	}
	switch x := m.(type) {
	case *types.NodeCredentials:
		out = append(out, keySecrets("node certificate private key", x.CertificatePrivateKeyPkcs8)...)
		out = append(out, secret{"node encryption private key", x.EncryptionPrivateKeyBytes})
		if len(x.RegistrationNonce) > 0 {
			out = append(out, secret{"node registration nonce", x.RegistrationNonce})
		}
		prev(x.PreviousEncryptionKey)
	case *types.NodeInformation:
		if len(x.ServerEncryptionPrivateKeyBytes) > 0 {
			out = append(out, secret{"server encryption private key", x.ServerEncryptionPrivateKeyBytes})
		}
		prev(x.PreviousEncryptionKey)
	case *types.RootCertificates:
		out = append(out, keySecrets("current root private key", x.Current.PrivateKeyPkcs8)...)
		out = append(out, keySecrets("next root private key", x.Next.PrivateKeyPkcs8)...)
	case *types.ServerLedActivationToken:
		if x.CreationTime != nil {
			b, _ := proto.Marshal(x.CreationTime)
			out = append(out, secret{"token creation time", b})
		}
	}
	return out
}

// loadAs loads the record named by a logged Store with the given options.
func loadAs(st *harness.MemStore, op harness.Op, opt ...nodeenrollment.Option) (proto.Message, error) {
	switch op.Kind {
	case "nodecreds":
		return types.LoadNodeCredentials(harness.Ctx, st, nodeenrollment.KnownId(op.Id), opt...)
	case "nodeinfo":
		return types.LoadNodeInformation(harness.Ctx, st, op.Id, opt...)
	case "roots":
		return types.LoadRootCertificates(harness.Ctx, st, opt...)
	case "token":
		return types.LoadServerLedActivationToken(harness.Ctx, st, op.Id, opt...)
	}
	panic(op.Kind)
}

type kase struct {
	Kind string `json:"kind"` // flow | direct | transplant
	Name string `json:"name"`
	Seed int64  `json:"seed"`
}

// a scenario writes records through the real API into st (server side) and nd (node side)
type scenario struct {
	Name string
	Run  func(w *world, st, nd *harness.MemStore) []proto.Message // returns the plain records it stored directly, if any
}

func (w *world) signed(name string, nonce []byte) *types.FetchNodeCredentialsRequest {
	return harness.SignedRequest(harness.Info(w.k[name], w.e[name], nonce), w.k[name])
}

func scenarios() []scenario {
	state := harness.Struct(map[string]any{"s": "t"})
	must := func(err error) {
		if err != nil {
			panic(err)
		}
	}
	return []scenario{
		{"flow:roots-rotate+reinit", func(w *world, st, nd *harness.MemStore) []proto.Message {
			_, err := rotation.RotateRootCertificates(harness.Ctx, st, w.opt())
			must(err)
			_, err = rotation.RotateRootCertificates(harness.Ctx, st, w.opt(), nodeenrollment.WithReinitializeRoots(true))
			must(err)
			return nil
		}},
		{"flow:roots-rotate-with-state-option", func(w *world, st, nd *harness.MemStore) []proto.Message {
			// the same option list carries the storage wrapper and application state
			_, err := rotation.RotateRootCertificates(harness.Ctx, st, w.opt(), nodeenrollment.WithState(state))
			must(err)
			r, err := types.LoadRootCertificates(harness.Ctx, st.Clone(), w.opt())
			must(err)
			must(r.Store(harness.Ctx, st, w.opt(), nodeenrollment.WithState(state)))
			return nil
		}},
		{"flow:authorize+fetch+handle", func(w *world, st, nd *harness.MemStore) []proto.Message {
			_, err := rotation.RotateRootCertificates(harness.Ctx, st, w.opt())
			must(err)
			c, err := types.NewNodeCredentials(harness.Ctx, nd, w.opt())
			must(err)
			req, err := c.CreateFetchNodeCredentialsRequest(harness.Ctx)
			must(err)
			_, err = registration.AuthorizeNode(harness.Ctx, st, req, w.opt(), nodeenrollment.WithState(state))
			must(err)
			resp, err := registration.FetchNodeCredentials(harness.Ctx, st, req, w.opt())
			must(err)
			_, err = c.HandleFetchNodeCredentialsResponse(harness.Ctx, nd, resp, w.opt())
			must(err)
			return nil
		}},
		{"flow:token", func(w *world, st, nd *harness.MemStore) []proto.Message {
			_, err := rotation.RotateRootCertificates(harness.Ctx, st, w.opt())
			must(err)
			_, tok, err := registration.CreateServerLedActivationToken(harness.Ctx, st, &types.ServerLedRegistrationRequest{}, w.opt(), nodeenrollment.WithState(state))
			must(err)
			c, err := types.NewNodeCredentials(harness.Ctx, nd, w.opt(), nodeenrollment.WithActivationToken(tok))
			must(err)
			req, err := c.CreateFetchNodeCredentialsRequest(harness.Ctx, nodeenrollment.WithActivationToken(tok))
			must(err)
			resp, err := registration.FetchNodeCredentials(harness.Ctx, st, req, w.opt())
			must(err)
			_, err = c.HandleFetchNodeCredentialsResponse(harness.Ctx, nd, resp, w.opt(), nodeenrollment.WithActivationToken(tok))
			must(err)
			// a second, unused token stays in storage
			_, _, err = registration.CreateServerLedActivationToken(harness.Ctx, st, &types.ServerLedRegistrationRequest{}, w.opt())
			must(err)
			return nil
		}},
		{"flow:wrapper-registration", func(w *world, st, nd *harness.MemStore) []proto.Message {
			_, err := rotation.RotateRootCertificates(harness.Ctx, st, w.opt())
			must(err)
			c, err := types.NewNodeCredentials(harness.Ctx, nd, w.opt())
			must(err)
			req, err := c.CreateFetchNodeCredentialsRequest(harness.Ctx, nodeenrollment.WithRegistrationWrapper(w.rw))
			must(err)
			resp, err := registration.FetchNodeCredentials(harness.Ctx, st, req, w.opt(), nodeenrollment.WithRegistrationWrapper(w.rw))
			must(err)
			_, err = c.HandleFetchNodeCredentialsResponse(harness.Ctx, nd, resp, w.opt())
			must(err)
			return nil
		}},
		{"flow:node-rotation", func(w *world, st, nd *harness.MemStore) []proto.Message {
			_, err := rotation.RotateRootCertificates(harness.Ctx, st, w.opt())
			must(err)
			n, err := registration.AuthorizeNode(harness.Ctx, st, w.signed("K1", harness.Bytes("n1", 32)), w.opt())
			must(err)
			old := harness.NodeCreds(w.k["K1"], w.e["K1"], nil)
			old.ServerEncryptionPublicKeyBytes, old.ServerEncryptionPublicKeyType = harness.ServerPub(n), types.KEYTYPE_X25519
			ct, err := nodeenrollment.EncryptMessage(harness.Ctx, w.signed("K2", harness.Bytes("n2", 32)), old)
			must(err)
			_, err = rotation.RotateNodeCredentials(harness.Ctx, st, &types.RotateNodeCredentialsRequest{CertificatePublicKeyPkix: w.k["K1"].Pkix, EncryptedFetchNodeCredentialsRequest: ct}, w.opt())
			must(err)
			return nil
		}},
		{"flow:previous-key-node-credentials", func(w *world, st, nd *harness.MemStore) []proto.Message {
			old := harness.NodeCreds(w.k["K1"], w.e["K1"], nil)
			old.ServerEncryptionPublicKeyBytes, old.ServerEncryptionPublicKeyType = w.e["K3"].Pub, types.KEYTYPE_X25519
			cur := harness.NodeCreds(w.k["K2"], w.e["K2"], harness.Bytes("n2", 32))
			cur.ServerEncryptionPublicKeyBytes, cur.ServerEncryptionPublicKeyType = w.e["K4"].Pub, types.KEYTYPE_X25519
			must(cur.SetPreviousEncryptionKey(old))
			plain := proto.Clone(cur)
			must(cur.Store(harness.Ctx, nd, w.opt()))
			return []proto.Message{plain}
		}},
		{"flow:previous-key-node-information", func(w *world, st, nd *harness.MemStore) []proto.Message {
			_, err := rotation.RotateRootCertificates(harness.Ctx, st, w.opt())
			must(err)
			oldInfo, err := registration.AuthorizeNode(harness.Ctx, st, w.signed("K1", harness.Bytes("n1", 32)), w.opt())
			must(err)
			newInfo, err := registration.AuthorizeNode(harness.Ctx, st, w.signed("K2", harness.Bytes("n2", 32)), w.opt())
			must(err)
			must(newInfo.SetPreviousEncryptionKey(oldInfo))
			plain := proto.Clone(newInfo)
			must(newInfo.Store(harness.Ctx, st, w.opt()))
			return []proto.Message{plain}
		}},
	}
}

// directRecords enumerates hand-built records over the optional fields.
func (w *world) directRecords() []struct {
	Name string
	Msg  proto.Message
} {
	var out []struct {
		Name string
		Msg  proto.Message
	}
	add := func(n string, m proto.Message) {
		out = append(out, struct {
			Name string
			Msg  proto.Message
		}{n, m})
	}
	vclock.Freeze(harness.T0.Add(123456789))
	roots := func() *types.RootCertificates {
		r, err := rotation.RotateRootCertificates(harness.Ctx, harness.NewMemStore(), nodeenrollment.WithSkipStorage(true))
		if err != nil {
			panic(err)
		}
		return r
	}
	bundles := func() []*types.CertificateBundle {
		return []*types.CertificateBundle{{CertificateDer: []byte("leaf-1"), CaCertificateDer: []byte("ca-1")}, {CertificateDer: []byte("leaf-2"), CaCertificateDer: []byte("ca-2")}}
	}
	for mask := 0; mask < 16; mask++ {
		nonce, prev, state, bund := mask&1 != 0, mask&2 != 0, mask&4 != 0, mask&8 != 0
		name := fmt.Sprintf("nonce=%v,prev=%v,state=%v,bundles=%v", nonce, prev, state, bund)
		nc := harness.NodeCreds(w.k["K1"], w.e["K1"], nil)
		nc.ServerEncryptionPublicKeyBytes, nc.ServerEncryptionPublicKeyType = w.e["K3"].Pub, types.KEYTYPE_X25519
		ni := &types.NodeInformation{Id: w.k["K1"].KeyId, CertificatePublicKeyPkix: w.k["K1"].Pkix, CertificatePublicKeyType: types.KEYTYPE_ED25519,
			EncryptionPublicKeyBytes: w.e["K1"].Pub, EncryptionPublicKeyType: types.KEYTYPE_X25519,
			ServerEncryptionPrivateKeyBytes: w.e["K3"].Priv, ServerEncryptionPrivateKeyType: types.KEYTYPE_X25519}
		if nonce {
			nc.RegistrationNonce = harness.Bytes("nonce", 32)
			ni.RegistrationNonce = harness.Bytes("nonce", 32)
		}
		if prev {
			nc.PreviousEncryptionKey = &types.EncryptionKey{KeyId: w.k["K2"].KeyId, PrivateKeyPkcs8: w.e["K2"].Priv, PrivateKeyType: types.KEYTYPE_X25519, PublicKeyPkix: w.e["K4"].Pub, PublicKeyType: types.KEYTYPE_X25519}
			ni.PreviousEncryptionKey = &types.EncryptionKey{KeyId: w.k["K2"].KeyId, PrivateKeyPkcs8: w.e["K4"].Priv, PrivateKeyType: types.KEYTYPE_X25519, PublicKeyPkix: w.e["K2"].Pub, PublicKeyType: types.KEYTYPE_X25519}
		}
		if state {
			nc.State = harness.Struct(map[string]any{"x": 1.0})
			ni.State = harness.Struct(map[string]any{"x": 1.0})
		}
		if bund {
			nc.CertificateBundles = bundles()
			ni.CertificateBundles = bundles()
		}
		add("NodeCredentials:"+name, nc)
		add("NodeInformation:"+name, ni)
		if !nonce && !prev && !bund {
			r := roots()
			if state {
				r.State = harness.Struct(map[string]any{"x": 1.0})
			}
			add("RootCertificates:"+name, r)
			tk := &types.ServerLedActivationToken{Id: "token-" + name, CreationTime: vclock.TimestampNow()}
			if state {
				tk.State = harness.Struct(map[string]any{"x": 1.0})
			}
			add("ServerLedActivationToken:"+name, tk)
		}
	}
	// X25519 private keys are 32 arbitrary bytes: one whose bytes happen to be
	// the encoding of a sealed blob (a 20-byte ciphertext plus key info) is a
	// key like any other and is sealed like any other
	blobShaped := append(append([]byte{0x0a, 0x14}, harness.Bytes("blob-shaped-key", 20)...), 0x2a, 0x08, 0x1a, 0x06, 'a', 'b', 'c', 'd', 'e', 'f')
	if bi := new(wrapping.BlobInfo); len(blobShaped) != 32 || proto.Unmarshal(blobShaped, bi) != nil || len(bi.Ciphertext) != 20 || bi.KeyInfo == nil {
		panic("c12: blob-shaped key is not what it should be")
	}
	nc := harness.NodeCreds(w.k["K1"], w.e["K1"], harness.Bytes("nonce", 32))
	nc.EncryptionPrivateKeyBytes = blobShaped
	add("NodeCredentials:encryption-key-shaped-like-a-sealed-blob", nc)
	add("NodeInformation:server-key-shaped-like-a-sealed-blob", &types.NodeInformation{Id: w.k["K1"].KeyId, CertificatePublicKeyPkix: w.k["K1"].Pkix, CertificatePublicKeyType: types.KEYTYPE_ED25519,
		EncryptionPublicKeyBytes: w.e["K1"].Pub, EncryptionPublicKeyType: types.KEYTYPE_X25519, ServerEncryptionPrivateKeyBytes: blobShaped, ServerEncryptionPrivateKeyType: types.KEYTYPE_X25519})
	return out
}

func storeDirect(m proto.Message, st *harness.MemStore, opt ...nodeenrollment.Option) error {
	switch x := m.(type) {
	case *types.NodeCredentials:
		return x.Store(harness.Ctx, st, opt...)
	case *types.NodeInformation:
		return x.Store(harness.Ctx, st, opt...)
	case *types.RootCertificates:
		return x.Store(harness.Ctx, st, opt...)
	case *types.ServerLedActivationToken:
		return x.Store(harness.Ctx, st, opt...)
	}
	panic("type")
}

// faultyWrapper fails its n-th operation (KeyId, Encrypt and Decrypt are counted).
type faultyWrapper struct {
	wrapping.Wrapper
	failAt int
	calls  int
}

func (f *faultyWrapper) tick() error {
	f.calls++
	if f.calls == f.failAt {
		return fmt.Errorf("injected wrapper failure at operation %d", f.calls)
	}
	return nil
}

func (f *faultyWrapper) KeyId(ctx context.Context) (string, error) {
	if err := f.tick(); err != nil {
		return "", err
	}
	return f.Wrapper.KeyId(ctx)
}

func (f *faultyWrapper) Encrypt(ctx context.Context, pt []byte, opt ...wrapping.Option) (*wrapping.BlobInfo, error) {
	if err := f.tick(); err != nil {
		return nil, err
	}
	return f.Wrapper.Encrypt(ctx, pt, opt...)
}

func (f *faultyWrapper) Decrypt(ctx context.Context, ct *wrapping.BlobInfo, opt ...wrapping.Option) ([]byte, error) {
	if err := f.tick(); err != nil {
		return nil, err
	}
	return f.Wrapper.Decrypt(ctx, ct, opt...)
}

// runScenarioWithWrapperFaults repeats a flow with the storage wrapper failing
// at each of its operations in turn. The flow may fail; whatever it handed to
// storage before or after must still satisfy the property.
func (w *world) runScenarioWithWrapperFaults(sc scenario, r *engine.Report) []finding {
	var out []finding
	good := w.s
	defer func() { w.s = good }()
	// count the wrapper operations of the fault-free flow
	counter := &faultyWrapper{Wrapper: good, failAt: -1}
	w.s = counter
	vclock.Freeze(harness.T0.Add(123456789))
	func() {
		defer func() { recover() }()
		sc.Run(w, harness.NewMemStore(), harness.NewMemStore())
	}()
	n := counter.calls
	for i := 1; i <= n; i++ {
		fw := &faultyWrapper{Wrapper: good, failAt: i}
		w.s = fw
		st, nd := harness.NewMemStore(), harness.NewMemStore()
		st.Record, nd.Record = true, true
		func() {
			defer func() { recover() }() // the scenarios panic on errors: a failing flow is fine here
			sc.Run(w, st, nd)
		}()
		w.s = good
		for _, f := range w.audit(fmt.Sprintf("%s with wrapper operation %d of %d failing", sc.Name, i, n), []*harness.MemStore{st, nd}, nil, r) {
			f.sig = "wrapper-fault:" + f.sig
			out = append(out, f)
		}
		r.Branch("wrapper-fault-audited")
		r.Eval(1)
	}
	return out
}

type finding struct{ sig, msg string }

// audit checks every Store logged by the stores against the property.
func (w *world) audit(where string, stores []*harness.MemStore, plains []proto.Message, r *engine.Report) []finding {
	var out []finding
	for _, st := range stores {
		log := append([]harness.Op{}, st.Log...)
		st.Record = false
		// the final contents of each record decide load behaviour; every
		// logged Store decides secrecy
		last := map[string]harness.Op{}
		var secrets []secret
		for _, op := range log {
			if op.Call != "Store" || op.Err != "" {
				continue
			}
			last[op.Kind+"/"+op.Id] = op
			// unwrap exactly these bytes to learn the secrets they protect
			tmp := harness.NewMemStore()
			tmp.SetRaw(op.Kind, op.Id, op.Bytes)
			m, err := loadAs(tmp, op, w.opt())
			if err != nil {
				out = append(out, finding{"load-with-same-wrapper-fails:" + op.Kind, fmt.Sprintf("%s: a %s record stored with the wrapper cannot be loaded with the same wrapper: %v", where, op.Kind, err)})
				continue
			}
			secrets = append(secrets, secretsOf(m)...)
			r.Branch("audited:" + op.Kind)
		}
		for _, p := range plains {
			secrets = append(secrets, secretsOf(p)...)
		}
		for _, op := range log {
			if (op.Call != "Store" && op.Call != "Remove") || op.Err != "" {
				continue
			}
			if op.Call == "Remove" {
				// a message handed to Remove reaches the storage implementation as well
				for _, s := range secrets {
					if s.What == "token creation time" && op.Kind != "token" {
						continue
					}
					if len(s.Bytes) >= 8 && bytes.Contains(op.Bytes, s.Bytes) {
						out = append(out, finding{fmt.Sprintf("clear-in-remove:%s:%s", op.Kind, strings.ReplaceAll(s.What, " ", "-")), fmt.Sprintf("%s: the message handed to Storage.Remove for %s/%s contains the %s in clear", where, op.Kind, op.Id, s.What)})
					}
				}
				continue
			}
			for _, s := range secrets {
				if s.What == "token creation time" && op.Kind != "token" {
					continue
				}
				if len(s.Bytes) >= 8 && bytes.Contains(op.Bytes, s.Bytes) {
					// a retained previous key is reported under its own name
					// whichever record it came from
					for _, p := range secrets {
						if p.What == "previous_encryption_key.private_key" && bytes.Equal(p.Bytes, s.Bytes) {
							s = p
						}
					}
					out = append(out, finding{fmt.Sprintf("clear:%s:%s", op.Kind, strings.ReplaceAll(s.What, " ", "-")), fmt.Sprintf("%s: the bytes handed to Storage.Store for %s/%s contain the %s in clear", where, op.Kind, op.Id, s.What)})
				}
			}
		}
		var keys []string
		for k := range last {
			keys = append(keys, k)
		}
		sort.Strings(keys)
		for _, k := range keys {
			op := last[k]
			if _, ok := st.Raw(op.Kind, op.Id); !ok {
				continue // removed later (consumed token)
			}
			if _, err := loadAs(st, op); err == nil {
				out = append(out, finding{"loads-without-wrapper:" + op.Kind, fmt.Sprintf("%s: %s/%s stored with a wrapper loads without one", where, op.Kind, op.Id)})
			} else if errors.Is(err, nodeenrollment.ErrNotFound) {
				// "must fail" is not "is absent": callers treat not-found as licence to create the record
				out = append(out, finding{"sealed-record-reported-as-absent:" + op.Kind, fmt.Sprintf("%s: %s/%s is stored (with a wrapper); loading it without one reports ErrNotFound: %v", where, op.Kind, op.Id, err)})
			}
			if _, err := loadAs(st, op, nodeenrollment.WithStorageWrapper(w.sx)); err == nil {
				out = append(out, finding{"loads-with-other-wrapper:" + op.Kind, fmt.Sprintf("%s: %s/%s stored with a wrapper loads with a different wrapper", where, op.Kind, op.Id)})
			} else if errors.Is(err, nodeenrollment.ErrNotFound) {
				out = append(out, finding{"sealed-record-reported-as-absent:" + op.Kind, fmt.Sprintf("%s: %s/%s is stored (with a wrapper); loading it with another wrapper reports ErrNotFound: %v", where, op.Kind, op.Id, err)})
			}
		}
	}
	return out
}

func (w *world) runScenario(sc scenario, r *engine.Report) []finding {
	vclock.Freeze(harness.T0.Add(123456789))
	st, nd := harness.NewMemStore(), harness.NewMemStore()
	st.Record, nd.Record = true, true
	plains := sc.Run(w, st, nd)
	return w.audit(sc.Name, []*harness.MemStore{st, nd}, plains, r)
}

func (w *world) runDirect(name string, m proto.Message, r *engine.Report) []finding {
	st := harness.NewMemStore()
	st.Record = true
	plain := proto.Clone(m)
	if err := storeDirect(m, st, w.opt()); err != nil {
		return []finding{{"store-fails", fmt.Sprintf("direct:%s: Store with a wrapper failed: %v", name, err)}}
	}
	out := w.audit("direct:"+name, []*harness.MemStore{st}, []proto.Message{plain}, r)
	// round trip: loading with the same wrapper returns exactly what was stored
	op := st.Log[len(st.Log)-1]
	got, err := loadAs(st, op, w.opt())
	if err == nil {
		want := proto.Clone(plain)
		if tk, ok := want.(*types.ServerLedActivationToken); ok {
			tk.CreationTimeMarshaled, _ = proto.Marshal(tk.CreationTime)
		}
		if !proto.Equal(got, want) {
			out = append(out, finding{"round-trip-differs:" + op.Kind, "direct:" + name + ": loading with the same wrapper does not return what was stored"})
		} else {
			r.Branch("round-trip")
		}
	}
	// a token record that is loaded, changed and stored again: the second
	// store seals what the record holds now, not what it held at the first
	if tk, ok := plain.(*types.ServerLedActivationToken); ok {
		st2 := harness.NewMemStore()
		first := proto.Clone(tk).(*types.ServerLedActivationToken)
		if err := first.Store(harness.Ctx, st2, w.opt()); err == nil {
			if l, err := types.LoadServerLedActivationToken(harness.Ctx, st2, tk.Id, w.opt()); err == nil {
				later := timestamppb.New(tk.CreationTime.AsTime().Add(time.Hour))
				l.CreationTime = later
				if err := l.Store(harness.Ctx, st2, w.opt()); err != nil {
					out = append(out, finding{"store-fails:second-store", fmt.Sprintf("direct:%s: storing the loaded and changed token again failed: %v", name, err)})
				} else if l2, err := types.LoadServerLedActivationToken(harness.Ctx, st2, tk.Id, w.opt()); err != nil || !l2.CreationTime.AsTime().Equal(later.AsTime()) {
					out = append(out, finding{"round-trip-differs:token:second-store", fmt.Sprintf("direct:%s: a token loaded, given a new creation time and stored again loads with the old sealed time (%v)", name, err)})
				} else {
					r.Branch("token-second-store")
				}
			}
		}
	}
	// the same record through a pooled wrapper whose encrypting key is rotated
	// between the store and the load (the earlier key stays in the pool): what
	// was stored still loads, exactly
	if pool, err := multi.NewPooledWrapper(harness.Ctx, w.s); err == nil {
		pst := harness.NewMemStore()
		pst.Record = true
		m2 := proto.Clone(plain)
		if err := storeDirect(m2, pst, nodeenrollment.WithStorageWrapper(pool)); err != nil {
			out = append(out, finding{"store-fails:pooled", fmt.Sprintf("direct:%s: Store with a pooled wrapper failed: %v", name, err)})
			return out
		}
		if _, err := pool.SetEncryptingWrapper(harness.Ctx, w.sx); err != nil {
			panic(err)
		}
		pop := pst.Log[len(pst.Log)-1]
		got, err := loadAs(pst, pop, nodeenrollment.WithStorageWrapper(pool))
		want := proto.Clone(plain)
		if tk, ok := want.(*types.ServerLedActivationToken); ok {
			tk.CreationTimeMarshaled, _ = proto.Marshal(tk.CreationTime)
		}
		switch {
		case err != nil:
			out = append(out, finding{"round-trip-fails-after-key-rotation:" + pop.Kind, fmt.Sprintf("direct:%s: stored through a pooled wrapper, the pool's encrypting key rotated, loading through the same pool fails: %v", name, err)})
		case !proto.Equal(got, want):
			out = append(out, finding{"round-trip-differs:" + pop.Kind, "direct:" + name + ": loading through the pooled wrapper after a key rotation does not return what was stored"})
		default:
			r.Branch("round-trip-after-key-rotation")
		}
	}
	return out
}

// transplants: a sealed field copied into another record of the same type must not open.
func (w *world) runTransplants(r *engine.Report) []finding {
	var out []finding
	vclock.Freeze(harness.T0.Add(123456789))
	try := func(name string, kind string, mk func(i int) proto.Message, fields func(m proto.Message) []*[]byte) {
		a, b := harness.NewMemStore(), harness.NewMemStore()
		if err := storeDirect(mk(0), a, w.opt()); err != nil {
			panic(err)
		}
		if err := storeDirect(mk(1), b, w.opt()); err != nil {
			panic(err)
		}
		ida, idb := a.Keys()[0], b.Keys()[0]
		ra, _ := a.Raw(kind, strings.SplitN(ida, "/", 2)[1])
		rb, _ := b.Raw(kind, strings.SplitN(idb, "/", 2)[1])
		nf := len(fields(mk(0)))
		for fi := 0; fi < nf; fi++ {
			ma, mb := mk(0), mk(1)
			proto.Reset(ma)
			proto.Reset(mb)
			if proto.Unmarshal(ra, ma) != nil || proto.Unmarshal(rb, mb) != nil {
				panic("unmarshal")
			}
			fa, fb := fields(ma), fields(mb)
			*fb[fi] = *fa[fi] // A's sealed value into B's record
			raw, _ := proto.Marshal(mb)
			tmp := harness.NewMemStore()
			op := harness.Op{Kind: kind, Id: strings.SplitN(idb, "/", 2)[1]}
			tmp.SetRaw(kind, op.Id, raw)
			if _, err := loadAs(tmp, op, w.opt()); err == nil {
				out = append(out, finding{fmt.Sprintf("transplant-opens:%s:field%d", name, fi), fmt.Sprintf("transplant:%s: sealed field #%d of one record opens inside another record of the same type", name, fi)})
			} else {
				r.Branch("transplant-rejected")
			}
			r.Eval(1)
			// the same with the id field inside A's stored bytes copied along:
			// the slot the record is loaded from is still B's
			ma, mb = mk(0), mk(1)
			proto.Reset(ma)
			proto.Reset(mb)
			if proto.Unmarshal(ra, ma) != nil || proto.Unmarshal(rb, mb) != nil {
				panic("unmarshal")
			}
			fa, fb = fields(ma), fields(mb)
			*fb[fi] = *fa[fi]
			idf := mb.ProtoReflect().Descriptor().Fields().ByName("id")
			mb.ProtoReflect().Set(idf, ma.ProtoReflect().Get(idf))
			raw, _ = proto.Marshal(mb)
			tmp = harness.NewMemStore()
			tmp.SetRaw(kind, op.Id, raw)
			if _, err := loadAs(tmp, op, w.opt()); err == nil {
				out = append(out, finding{fmt.Sprintf("transplant-opens:%s:field%d+id-field", name, fi), fmt.Sprintf("transplant:%s: sealed field #%d of one record, copied together with that record's own id field, opens when loaded from another record's slot", name, fi)})
			} else {
				r.Branch("transplant-rejected")
			}
			r.Eval(1)
		}
	}
	try("NodeCredentials", "nodecreds", func(i int) proto.Message {
		n := []string{"K1", "K2"}[i]
		c := harness.NodeCreds(w.k[n], w.e[n], harness.Bytes("nonce-"+n, 32))
		if i == 1 {
			c.Id = string(nodeenrollment.NextId)
		}
		return c
	}, func(m proto.Message) []*[]byte {
		x := m.(*types.NodeCredentials)
		return []*[]byte{&x.CertificatePrivateKeyPkcs8, &x.EncryptionPrivateKeyBytes, &x.RegistrationNonce}
	})
	try("NodeInformation", "nodeinfo", func(i int) proto.Message {
		n := []string{"K1", "K2"}[i]
		return &types.NodeInformation{Id: w.k[n].KeyId, CertificatePublicKeyPkix: w.k[n].Pkix, ServerEncryptionPrivateKeyBytes: w.e[n].Priv, ServerEncryptionPrivateKeyType: types.KEYTYPE_X25519}
	}, func(m proto.Message) []*[]byte {
		return []*[]byte{&m.(*types.NodeInformation).ServerEncryptionPrivateKeyBytes}
	})
	try("ServerLedActivationToken", "token", func(i int) proto.Message {
		return &types.ServerLedActivationToken{Id: []string{"tok-a", "tok-b"}[i], CreationTime: vclock.TimestampNow()}
	}, func(m proto.Message) []*[]byte {
		return []*[]byte{&m.(*types.ServerLedActivationToken).CreationTimeMarshaled}
	})
	// roots: the two sealed keys live in one record; swap them, and move one across root sets
	{
		st := harness.NewMemStore()
		if _, err := rotation.RotateRootCertificates(harness.Ctx, st, w.opt()); err != nil {
			panic(err)
		}
		raw, _ := st.Raw("roots", nodeenrollment.RootsMessageId)
		rc := new(types.RootCertificates)
		proto.Unmarshal(raw, rc)
		rc.Current.PrivateKeyPkcs8, rc.Next.PrivateKeyPkcs8 = rc.Next.PrivateKeyPkcs8, rc.Current.PrivateKeyPkcs8
		b, _ := proto.Marshal(rc)
		tmp := harness.NewMemStore()
		tmp.SetRaw("roots", nodeenrollment.RootsMessageId, b)
		r.Eval(1)
		if _, err := types.LoadRootCertificates(harness.Ctx, tmp, w.opt()); err == nil {
			out = append(out, finding{"transplant-opens:RootCertificates", "transplant: the sealed private keys of current and next can be swapped and still open"})
		} else {
			r.Branch("transplant-rejected")
		}
	}
	return out
}

// runSetLoader: the records under one node id, one written without and one
// with the wrapper (a server that turned the wrapper on later), in both lookup
// orders, through LoadNodeInformationSetByNodeId.
func (w *world) runSetLoader(r *engine.Report) []finding {
	var out []finding
	vclock.Freeze(harness.T0.Add(123456789))
	for _, order := range []string{"clear-record-first", "sealed-record-first"} {
		st := harness.NewMemStore()
		mk := func(n string) *types.NodeInformation {
			return &types.NodeInformation{Id: w.k[n].KeyId, NodeId: "node-X", CertificatePublicKeyPkix: w.k[n].Pkix, CertificatePublicKeyType: types.KEYTYPE_ED25519,
				ServerEncryptionPrivateKeyBytes: w.e[n].Priv, ServerEncryptionPrivateKeyType: types.KEYTYPE_X25519}
		}
		if err := mk("K1").Store(harness.Ctx, st); err != nil {
			panic(err)
		}
		if err := mk("K2").Store(harness.Ctx, st, w.opt()); err != nil {
			panic(err)
		}
		st.NodeOrder = []string{w.k["K1"].KeyId, w.k["K2"].KeyId}
		if order == "sealed-record-first" {
			st.NodeOrder = []string{w.k["K2"].KeyId, w.k["K1"].KeyId}
		}
		r.Eval(3)
		if _, err := types.LoadNodeInformationSetByNodeId(harness.Ctx, st, "node-X"); err == nil {
			out = append(out, finding{"loads-without-wrapper:nodeinfo-set:" + order, "set loader (" + order + "): a set containing a record stored with a wrapper loads without one"})
		}
		if _, err := types.LoadNodeInformationSetByNodeId(harness.Ctx, st, "node-X", nodeenrollment.WithStorageWrapper(w.sx)); err == nil {
			out = append(out, finding{"loads-with-other-wrapper:nodeinfo-set:" + order, "set loader (" + order + "): a set containing a record stored with a wrapper loads with a different wrapper"})
		}
		set, err := types.LoadNodeInformationSetByNodeId(harness.Ctx, st, "node-X", w.opt())
		switch {
		case err != nil:
			out = append(out, finding{"round-trip-differs:nodeinfo-set:" + order, fmt.Sprintf("set loader (%s): loading with the storing wrapper failed: %v", order, err)})
		default:
			ok := len(set.Nodes) == 2
			for _, n := range set.Nodes {
				want := w.e["K1"].Priv
				if n.Id == w.k["K2"].KeyId {
					want = w.e["K2"].Priv
				}
				if !bytes.Equal(n.ServerEncryptionPrivateKeyBytes, want) {
					ok = false
				}
			}
			if !ok {
				out = append(out, finding{"round-trip-differs:nodeinfo-set:" + order, "set loader (" + order + "): loading with the storing wrapper does not return the stored server keys (a sealed value was handed back as if it were the key)"})
			} else {
				r.Branch("set-loader-audited")
			}
		}
	}
	return out
}

func run(c *engine.Ctx, r *engine.Report) {
	r.Need("audited:roots", "audited:nodeinfo", "audited:nodecreds", "audited:token", "round-trip", "transplant-rejected", "wrapper-fault-audited", "set-loader-audited", "round-trip-after-key-rotation", "token-second-store")
	w := newWorld(c.Seed)
	report := func(k kase, fs []finding) {
		seen := map[string]bool{}
		for _, f := range fs {
			if !seen[f.sig] {
				seen[f.sig] = true
				r.Violate(f.sig, f.msg, k)
			}
		}
		if len(fs) == 0 {
			r.Nontrivial(1)
		}
	}
	for i, sc := range scenarios() {
		r.Eval(1)
		k := kase{"flow", sc.Name, c.Seed}
		report(k, w.runScenario(sc, r))
		if i < 2 {
			r.Sample(k)
		}
	}
	for _, sc := range scenarios() {
		if strings.Contains(sc.Name, "previous-key") {
			continue // those store hand-built records; the known finding is reported above
		}
		report(kase{"wrapper-fault", sc.Name, c.Seed}, w.runScenarioWithWrapperFaults(sc, r))
	}
	for i, d := range w.directRecords() {
		r.Eval(1)
		k := kase{"direct", d.Name, c.Seed}
		report(k, w.runDirect(d.Name, d.Msg, r))
		if i%11 == 0 {
			r.Sample(k)
		}
	}
	report(kase{"transplant", "all", c.Seed}, w.runTransplants(r))
	report(kase{"setloader", "all", c.Seed}, w.runSetLoader(r))
	vclock.Reset()
}

func replay(c *engine.Ctx, raw json.RawMessage) (string, bool) {
	var k kase
	if err := json.Unmarshal(raw, &k); err != nil {
		return err.Error(), false
	}
	w := newWorld(k.Seed)
	defer vclock.Reset()
	r := engine.NewReport()
	var fs []finding
	switch k.Kind {
	case "flow":
		for _, sc := range scenarios() {
			if sc.Name == k.Name {
				fs = w.runScenario(sc, r)
			}
		}
	case "wrapper-fault":
		for _, sc := range scenarios() {
			if sc.Name == k.Name {
				fs = w.runScenarioWithWrapperFaults(sc, r)
			}
		}
	case "direct":
		for _, d := range w.directRecords() {
			if d.Name == k.Name {
				fs = w.runDirect(d.Name, d.Msg, r)
			}
		}
	case "setloader":
		fs = w.runSetLoader(r)
	default:
		fs = w.runTransplants(r)
	}
	if len(fs) == 0 {
		return fmt.Sprintf("case %+v: holds", k), false
	}
	var b strings.Builder
	for _, f := range fs {
		fmt.Fprintf(&b, "%s: %s\n", f.sig, f.msg)
	}
	return b.String(), true
}

func init() {
	engine.Register(&engine.CheckDef{
		ID:    "C12",
		Level: "exploration",
		Rule: "8 writing flows through the real API with a storage wrapper (root rotation + reinit, root rotation and store with an application-state option in the same option list, authorize+fetch+handle, token, wrapper registration, node rotation, previous key on node credentials / node information), every hand-built record over the 16 combinations of optional fields {nonce, previous key, state, bundles} for the node types and {state} for roots and tokens (each also stored and loaded through a pooled wrapper whose encrypting key is rotated in between), every transplant of a sealed field (alone, and together with the record's own id field) between two records of the same type, the node-id set loader over a set that mixes a record written without and one written with the wrapper in both lookup orders, and every flow again with the wrapper failing at each of its operations in turn (whatever reached storage must still satisfy the property); the harness store records the exact bytes handed to Storage.Store and to Storage.Remove; secrets are learnt by unwrapping those bytes with the same wrapper; " +
			"distinct_nontrivial counts scenarios / records / transplant groups (distinct by construction) that were audited without a finding",
		Assumptions: []string{"a secret is searched as a byte substring (PKCS8 form, raw Ed25519 seed, raw X25519 scalar, nonce, marshaled timestamp with a nanosecond part); secrets shorter than 8 bytes are not searched"},
		Run:         run,
		Replay:      replay,
	})
}
