// Package c02: the intercepting listener authenticates only registered nodes
// that prove key possession (E4: product of client capabilities and every
// bit flip / truncation of the ALPN-carried request through real TLS 1.3
// handshakes against the real listener; E1: register / remove / connect
// histories with the real dialer).
package c02

import (
	"crypto"
	"crypto/ed25519"
	"crypto/tls"
	"crypto/x509"
	"crypto/x509/pkix"
	"encoding/base64"
	"encoding/json"
	"fmt"
	"math/big"
	"net"
	"strings"
	"time"

	"github.com/hashicorp/nodeenrollment"
	"github.com/hashicorp/nodeenrollment/protocol"
	"github.com/hashicorp/nodeenrollment/registration"
	nodetls "github.com/hashicorp/nodeenrollment/tls"
	"github.com/hashicorp/nodeenrollment/types"
	vclock "github.com/hashicorp/nodeenrollment/zz_verif/vclock"
	"google.golang.org/protobuf/proto"
	"verif/engine"
	"verif/harness"
)

// handshakes happen 15 days after enrollment: the root that was current at
// enrollment has expired, the other one is valid.
var connectTime = harness.T0.AddDate(0, 0, 15)

type dim struct {
	Name   string
	Values []string // index 0 is the honest value
}

var dims = []dim{
	{"holds-key", []string{"yes", "no"}},
	{"cert", []string{"valid-root", "expired-root", "foreign-root", "self-signed", "server-auth", "own-ca-cert-then-victims-chain", "own-leaf-then-victims-chain", "other-registered-nodes-valid-chain"}},
	{"record", []string{"present", "removed"}},
	{"nonce-sig", []string{"own-key", "other-registered-key", "unregistered-key", "missing"}},
	{"skip-flag", []string{"unset", "set"}},
	{"node-id", []string{"absent", "matching", "foreign", "matching-on-plain-storage", "unknown-on-empty-set-loader"}},
	{"state", []string{"none", "validly-signed", "forged"}},
	{"preference", []string{"valid", "garbage", "absent"}},
	{"common-name", []string{"unset", "set"}},
	// an entry of the fetch protocol placed ahead of the authentication request in the same hello
	// (the last value: a well-formed, correctly signed fetch request of a key nobody registered)
	{"leading-entry", []string{"none", "empty-fetch-request", "garbage-fetch-request", "well-formed-fetch-request"}},
}

type vector [10]int

func (v vector) String() string {
	var parts []string
	for i, d := range dims {
		parts = append(parts, d.Name+"="+d.Values[v[i]])
	}
	return strings.Join(parts, " ")
}

func (v vector) dishonest() int {
	n := 0
	for _, x := range v {
		if x != 0 {
			n++
		}
	}
	return n
}

type world struct {
	seed      int64
	st        *harness.MemStore
	n1, n2    *harness.Enrolled
	ku        *harness.CertKey
	other     ed25519.PrivateKey
	foreign   [2][]byte // leaf, ca from another server
	selfCert  []byte
	saLeaf    [2][]byte // server-auth leaf + ca
	saKey     ed25519.PrivateKey
	ownCA     []byte // self-signed CA-flagged certificate of the adversary's key
	ownLeaf   []byte // self-signed non-CA certificate of the adversary's key
	validIdx  int    // bundle index of the chain under the still-valid root
	prefValid string
}

func newWorld(seed int64) *world {
	vclock.Freeze(harness.T0)
	w := &world{seed: seed, st: harness.NewMemStore(), ku: harness.NewCertKey("KU", seed)}
	harness.InitRoots(w.st)
	var err error
	k1, k2 := harness.NewCertKey("K1", seed), harness.NewCertKey("K2", seed)
	w.n1, err = harness.Enroll(w.st, k1, harness.NewEncKey("E1", seed), harness.Bytes("n1", 32), nil, nil)
	if err != nil {
		panic(err)
	}
	w.n2, err = harness.Enroll(w.st, k2, harness.NewEncKey("E2", seed), harness.Bytes("n2", 32), nil, nil)
	if err != nil {
		panic(err)
	}
	for id, key := range map[string]*harness.CertKey{"X": k1, "Y": k2} {
		n := w.st.NodeInfo(key.KeyId)
		n.NodeId = id
		w.st.PutNodeInfo(n)
	}
	// a foreign server enrolls the same key
	fs := harness.NewMemStore()
	harness.InitRoots(fs)
	f, err := harness.Enroll(fs, k1, harness.NewEncKey("E1", seed), harness.Bytes("n1", 32), nil, nil)
	if err != nil {
		panic(err)
	}
	_, w.other, _ = ed25519.GenerateKey(harness.DetRand("unrelated-tls-key"))

	vclock.Freeze(connectTime)
	// which of node 1's chains is still valid now
	w.validIdx = -1
	for i, b := range w.n1.Creds.CertificateBundles {
		ca, _ := x509.ParseCertificate(b.CaCertificateDer)
		if !connectTime.Before(ca.NotBefore) && !connectTime.After(ca.NotAfter) {
			w.validIdx = i
		}
	}
	if w.validIdx != 1 {
		panic("expected exactly the second root to be valid 15 days after enrollment")
	}
	w.prefValid = harness.CaKeyId(w.n1.Creds.CertificateBundles[w.validIdx].CaCertificateDer)
	fb := f.Creds.CertificateBundles[w.validIdx]
	w.foreign = [2][]byte{fb.CertificateDer, fb.CaCertificateDer}
	// self-signed certificate for K1 (what a fetch client presents)
	tmpl := &x509.Certificate{AuthorityKeyId: k1.Pkix, SubjectKeyId: k1.Pkix, ExtKeyUsage: []x509.ExtKeyUsage{x509.ExtKeyUsageClientAuth},
		DNSNames: []string{nodeenrollment.CommonDnsName}, KeyUsage: x509.KeyUsageDigitalSignature | x509.KeyUsageCertSign, SerialNumber: big.NewInt(3),
		NotBefore: connectTime.Add(-time.Hour), NotAfter: connectTime.Add(time.Hour), BasicConstraintsValid: true, IsCA: true, Subject: pkix.Name{CommonName: "self"}}
	w.selfCert, err = x509.CreateCertificate(harness.DetRand("self"), tmpl, tmpl, k1.Pub, k1.Priv)
	if err != nil {
		panic(err)
	}
	for i, isCA := range []bool{true, false} {
		ot := &x509.Certificate{SubjectKeyId: k1.Pkix, AuthorityKeyId: k1.Pkix, ExtKeyUsage: []x509.ExtKeyUsage{x509.ExtKeyUsageClientAuth}, SerialNumber: big.NewInt(int64(20 + i)),
			NotBefore: connectTime.Add(-time.Hour), NotAfter: connectTime.Add(time.Hour), BasicConstraintsValid: true, IsCA: isCA, Subject: pkix.Name{CommonName: "adversary"}, KeyUsage: x509.KeyUsageDigitalSignature}
		if isCA {
			ot.KeyUsage |= x509.KeyUsageCertSign
		}
		der, err := x509.CreateCertificate(harness.DetRand("own"), ot, ot, w.other.Public(), w.other)
		if err != nil {
			panic(err)
		}
		if isCA {
			w.ownCA = der
		} else {
			w.ownLeaf = der
		}
	}
	// a server-auth certificate legitimately minted by this server for K1's key
	resp, err := nodetls.GenerateServerCertificates(harness.Ctx, w.st, &types.GenerateServerCertificatesRequest{CertificatePublicKeyPkix: k1.Pkix, SkipVerification: true, Nonce: harness.Bytes("sa", 32)})
	if err != nil {
		panic(err)
	}
	sk, _ := x509.ParsePKCS8PrivateKey(resp.CertificatePrivateKeyPkcs8)
	w.saKey = sk.(ed25519.PrivateKey)
	w.saLeaf = [2][]byte{resp.CertificateBundles[w.validIdx].CertificateDer, resp.CertificateBundles[w.validIdx].CaCertificateDer}
	return w
}

var stateMsg = harness.Struct(map[string]any{"role": "worker"})

// build turns a vector into a client, the storage the server uses and the
// reference verdict "may authenticate".
func (w *world) build(v vector, nonceLabel string) (*harness.AuthClient, nodeenrollment.Storage, bool, string) {
	k1, k2 := w.n1.K, w.n2.K
	st := w.st.Clone()
	if v[2] == 1 {
		st.DeleteRaw("nodeinfo", k1.KeyId)
	}
	var storage nodeenrollment.Storage = st
	nonce := harness.Bytes("conn-nonce:"+nonceLabel, 32)
	req := &types.GenerateServerCertificatesRequest{CertificatePublicKeyPkix: k1.Pkix, Nonce: nonce}
	signer := ""
	switch v[3] {
	case 0:
		req.NonceSignature, signer = k1.Sign(nonce), "K1"
	case 1:
		req.NonceSignature, signer = k2.Sign(nonce), "K2"
	case 2:
		req.NonceSignature, signer = w.ku.Sign(nonce), "KU"
	}
	req.SkipVerification = v[4] == 1
	switch v[5] {
	case 1:
		req.NodeId = "X"
	case 2:
		req.NodeId = "Y"
	case 3:
		req.NodeId = "X"
		storage = harness.Plain{S: st}
	case 4:
		// a node id nobody is registered under, on a loader that answers with an empty set and no error
		req.NodeId = "Z"
		st.EmptySetNoError = true
	}
	sb, _ := proto.Marshal(stateMsg)
	stateSigner := ""
	switch v[6] {
	case 1:
		req.ClientState, req.ClientStateSignature, stateSigner = sb, k1.Sign(sb), "K1"
	case 2:
		req.ClientState, req.ClientStateSignature, stateSigner = sb, w.ku.Sign(sb), "KU"
	}
	if v[8] == 1 {
		req.CommonName = "attacker-chosen-name"
	}
	c := &harness.AuthClient{Request: req}
	switch v[9] {
	case 1:
		c.FirstProtos = []string{nodeenrollment.FetchNodeCredsNextProtoV1Prefix + "00-"}
	case 2:
		c.FirstProtos = []string{nodeenrollment.FetchNodeCredsNextProtoV1Prefix + "00-bm90IGEgcmVxdWVzdA"}
	case 3:
		fk, fe := harness.NewCertKey("leading-fetcher", w.seed), harness.NewEncKey("leading-fetcher-enc", w.seed)
		fraw, _ := proto.Marshal(harness.SignedRequest(harness.Info(fk, fe, harness.Bytes("leading-fetch-nonce", 32)), fk))
		fp, err := nodetls.BreakIntoNextProtos(nodeenrollment.FetchNodeCredsNextProtoV1Prefix, base64.RawStdEncoding.EncodeToString(fraw))
		if err != nil {
			panic(err)
		}
		c.FirstProtos = fp
	}
	var key crypto.Signer
	b := w.n1.Creds.CertificateBundles
	switch v[1] {
	case 0:
		c.Chain, key = [][]byte{b[w.validIdx].CertificateDer, b[w.validIdx].CaCertificateDer}, k1.Priv
	case 1:
		c.Chain, key = [][]byte{b[1-w.validIdx].CertificateDer, b[1-w.validIdx].CaCertificateDer}, k1.Priv
	case 2:
		c.Chain, key = [][]byte{w.foreign[0], w.foreign[1]}, k1.Priv
	case 3:
		c.Chain, key = [][]byte{w.selfCert}, k1.Priv
	case 4:
		c.Chain, key = [][]byte{w.saLeaf[0], w.saLeaf[1]}, w.saKey
	case 5, 6:
		// the adversary proves possession of its own throw-away key (first
		// certificate) and appends the victim's public chain behind it
		own := w.ownCA
		if v[1] == 6 {
			own = w.ownLeaf
		}
		c.Chain, key = [][]byte{own, b[w.validIdx].CertificateDer, b[w.validIdx].CaCertificateDer}, w.other
	case 7:
		// another node of the same server presents its own valid chain and key
		// while replaying this node's request (the request travels in clear)
		b2 := w.n2.Creds.CertificateBundles
		c.Chain, key = [][]byte{b2[w.validIdx].CertificateDer, b2[w.validIdx].CaCertificateDer}, k2.Priv
	}
	if v[0] == 1 {
		key = w.other
	}
	c.Key = key
	switch v[7] {
	case 0:
		c.Preference = w.prefValid
	case 1:
		c.Preference = "garbage-preference"
	}
	// reference predicate
	possession := v[0] == 0 || v[1] == 5 || v[1] == 6 // kinds 5/6 always prove possession of their own first certificate
	chain := v[1] == 0 || v[1] == 4                   // the certificate whose key was proven chains to a currently valid root
	if v[1] == 7 {
		// the key proven is the other node's, not the one the request was verified for
		possession = false
	}
	var lookup []string // keys of the records the property says are consulted
	switch {
	case v[5] == 1:
		if v[2] == 0 {
			lookup = []string{"K1"}
		}
	case v[5] == 2:
		lookup = []string{"K2"}
	case v[5] == 4:
		lookup = nil
	default:
		if v[2] == 0 {
			lookup = []string{"K1"}
		}
	}
	verified := false
	for _, r := range lookup {
		if signer == r && (stateSigner == "" || stateSigner == r) {
			verified = true
		}
	}
	may := possession && chain && verified
	why := fmt.Sprintf("possession-proof=%v chain-to-valid-root=%v nonce-and-state-verified-by-a-consulted-record=%v (consulted %v, nonce signed by %q, state signed by %q)", possession, chain, verified, lookup, signer, stateSigner)
	return c, storage, may, why
}

// netOf: the harness serves on a unix socket (path) or on loopback TCP.
func netOf(addr string) string {
	if strings.HasPrefix(addr, "/") {
		return "unix"
	}
	return "tcp"
}

type kase struct {
	Kind   string   `json:"kind"` // vector | flip | trunc | history
	Vector vector   `json:"vector,omitempty"`
	Pos    int      `json:"pos,omitempty"`
	Path   []string `json:"path,omitempty"`
	Seed   int64    `json:"seed"`
}

func (w *world) handshake(c *harness.AuthClient, storage nodeenrollment.Storage) (harness.AcceptResult, string) {
	var cerr error
	rs, err := harness.Serve(harness.ServerConfig{Storage: storage, Unix: true}, func(addr string) {
		conn, e := c.Connect(addr)
		cerr = e
		if conn != nil {
			conn.Close()
		}
	})
	defer harness.CloseAll(rs)
	if err != nil {
		return harness.AcceptResult{}, err.Error()
	}
	if len(rs) != 1 {
		return harness.AcceptResult{}, fmt.Sprintf("INFRA: expected one accept, got %d (client error %v)", len(rs), cerr)
	}
	return rs[0], ""
}

func (w *world) oneVector(v vector, r *engine.Report) (string, string) {
	vclock.Freeze(connectTime)
	c, storage, may, why := w.build(v, v.String())
	res, infra := w.handshake(c, storage)
	if infra != "" {
		r.InfraError(infra)
		return "", ""
	}
	switch {
	case res.Panic != "":
		return "panic", fmt.Sprintf("client {%s}: Accept panicked: %s", v, res.Panic)
	case res.Err == nil && strings.HasPrefix(res.Proto, nodeenrollment.FetchNodeCredsNextProtoV1Prefix):
		return "fetch-connection-returned", fmt.Sprintf("client {%s}: Accept returned a connection negotiated with the fetch protocol", v)
	case res.Authenticated && !may:
		var bad []string
		for i, x := range v {
			if x != 0 {
				bad = append(bad, dims[i].Name+"="+dims[i].Values[x])
			}
		}
		return "authenticated-unentitled:" + strings.Join(bad, ","), fmt.Sprintf("client {%s} was returned as an authenticated connection although %s", v, why)
	}
	if res.Authenticated {
		r.Branch("authenticated")
		if v.dishonest() == 0 {
			r.Branch("honest-authenticated")
		}
	} else {
		r.Branch("rejected")
		if res.Err != nil && !res.Temporary {
			return "reject-not-temporary", fmt.Sprintf("client {%s}: rejection was reported as a non-temporary error: %v", v, res.Err)
		}
	}
	if may && res.Authenticated {
		r.Outcome("entitled-and-authenticated")
	} else if may {
		r.Outcome("entitled-but-rejected")
	}
	return "", ""
}

// oneFetch sends a well-formed fetch request with the given ALPN arrangement;
// whatever the answer, Accept must never hand the connection to the application.
func (w *world) oneFetch(arr string, authorized bool, r *engine.Report) (string, string) {
	vclock.Freeze(connectTime)
	st := w.st.Clone()
	k, e := harness.NewCertKey("fetcher", w.seed), harness.NewEncKey("fetcher-enc", w.seed)
	nonce := harness.Bytes("fetch-nonce", 32)
	req := harness.SignedRequest(harness.Info(k, e, nonce), k)
	if authorized {
		if _, err := registration.AuthorizeNode(harness.Ctx, st, req); err != nil {
			panic(err)
		}
	}
	raw, _ := proto.Marshal(req)
	fp, err := nodetls.BreakIntoNextProtos(nodeenrollment.FetchNodeCredsNextProtoV1Prefix, base64.RawStdEncoding.EncodeToString(raw))
	if err != nil {
		panic(err)
	}
	var protos []string
	switch arr {
	case "fetch-only":
		protos = fp
	case "application-proto-first":
		protos = append([]string{"h2"}, fp...)
	case "application-proto-last":
		protos = append(append([]string{}, fp...), "h2")
	case "preference-first":
		protos = append([]string{nodeenrollment.CertificatePreferenceV1Prefix + w.prefValid}, fp...)
	case "unknown-library-like-first":
		protos = append([]string{"v1-nodee-something-else"}, fp...)
	}
	rs, serr := harness.Serve(harness.ServerConfig{Storage: st, Unix: true}, func(addr string) {
		raw, err := net.DialTimeout(netOf(addr), addr, 10*time.Second)
		if err != nil {
			return
		}
		defer raw.Close()
		tc := tls.Client(raw, &tls.Config{MinVersion: tls.VersionTLS13, InsecureSkipVerify: true, NextProtos: protos,
			GetClientCertificate: func(*tls.CertificateRequestInfo) (*tls.Certificate, error) {
				return &tls.Certificate{Certificate: [][]byte{harness.SelfSignedCert(k, nodeenrollment.CommonDnsName)}, PrivateKey: k.Priv}, nil
			}})
		tc.SetDeadline(time.Now().Add(30 * time.Second))
		if tc.Handshake() == nil {
			var b [1]byte
			tc.Read(b[:])
		}
	})
	defer harness.CloseAll(rs)
	if serr != nil {
		r.InfraError(serr.Error())
		return "", ""
	}
	for _, a := range rs {
		if a.Panic != "" {
			return "panic:fetch", fmt.Sprintf("fetch client (%s, authorized=%v): Accept panicked: %s", arr, authorized, a.Panic)
		}
		if a.Err == nil && a.Conn != nil {
			return "fetch-connection-returned:" + arr, fmt.Sprintf("a credential-fetch handshake (ALPN arrangement %q, node authorized=%v) yielded a connection from Accept (negotiated %q, authenticated=%v): the peer proved nothing", arr, authorized, a.Proto, a.Authenticated)
		}
	}
	r.Branch("fetch-never-returned")
	return "", ""
}

// oneAfterFetch runs the vector's client as the *second* connection of a
// listener that has just handled a credential-fetch handshake: nothing of one
// handshake may carry over into the next.
func (w *world) oneAfterFetch(v vector, authorizedFetch bool, r *engine.Report) (string, string) {
	vclock.Freeze(connectTime)
	c, storage, may, why := w.build(v, "after-fetch:"+v.String())
	k, e := harness.NewCertKey("prior-fetcher", w.seed), harness.NewEncKey("prior-fetcher-enc", w.seed)
	freq := harness.SignedRequest(harness.Info(k, e, harness.Bytes("prior-fetch-nonce", 32)), k)
	if authorizedFetch {
		if ms, ok := storage.(*harness.MemStore); ok {
			if _, err := registration.AuthorizeNode(harness.Ctx, ms, freq); err != nil {
				panic(err)
			}
		}
	}
	raw, _ := proto.Marshal(freq)
	fp, _ := nodetls.BreakIntoNextProtos(nodeenrollment.FetchNodeCredsNextProtoV1Prefix, base64.RawStdEncoding.EncodeToString(raw))
	rs, serr := harness.Serve(harness.ServerConfig{Storage: storage, Unix: true}, func(addr string) {
		if rc, err := net.DialTimeout(netOf(addr), addr, 10*time.Second); err == nil {
			tc := tls.Client(rc, &tls.Config{MinVersion: tls.VersionTLS13, InsecureSkipVerify: true, NextProtos: fp,
				GetClientCertificate: func(*tls.CertificateRequestInfo) (*tls.Certificate, error) {
					return &tls.Certificate{Certificate: [][]byte{harness.SelfSignedCert(k, nodeenrollment.CommonDnsName)}, PrivateKey: k.Priv}, nil
				}})
			tc.SetDeadline(time.Now().Add(30 * time.Second))
			if tc.Handshake() == nil {
				var b [1]byte
				tc.Read(b[:])
			}
			rc.Close()
		}
		if conn, _ := c.Connect(addr); conn != nil {
			conn.Close()
		}
	})
	defer harness.CloseAll(rs)
	if serr != nil {
		r.InfraError(serr.Error())
		return "", ""
	}
	if len(rs) != 2 {
		r.InfraError(fmt.Sprintf("expected two accepts, got %d", len(rs)))
		return "", ""
	}
	res := rs[1]
	switch {
	case res.Panic != "":
		return "panic:after-fetch", "Accept panicked: " + res.Panic
	case res.Authenticated && !may:
		var bad []string
		for i, x := range v {
			if x != 0 {
				bad = append(bad, dims[i].Name+"="+dims[i].Values[x])
			}
		}
		return "authenticated-unentitled:after-a-fetch-handshake:" + strings.Join(bad, ","), fmt.Sprintf("client {%s}, connecting right after a credential-fetch handshake on the same listener, was returned as an authenticated connection although %s", v, why)
	}
	r.Branch("after-fetch-judged")
	return "", ""
}

// honest request of node 1 as marshaled bytes
func (w *world) honestRaw() ([]byte, *types.GenerateServerCertificatesRequest) {
	c, _, _, _ := w.build(vector{0, 0, 0, 0, 0, 0, 1, 0, 0}, "mutation-base")
	b, _ := proto.Marshal(c.Request)
	return b, c.Request
}

func (w *world) oneMutation(kind string, pos int, r *engine.Report) (string, string) {
	vclock.Freeze(connectTime)
	raw, _ := w.honestRaw()
	var mut []byte
	if kind == "flip" {
		if pos >= len(raw)*8 {
			return "", ""
		}
		mut = append([]byte{}, raw...)
		mut[pos/8] ^= 1 << uint(pos%8)
	} else {
		if pos >= len(raw) {
			return "", ""
		}
		mut = append([]byte{}, raw[:pos]...)
	}
	c, storage, _, _ := w.build(vector{0, 0, 0, 0, 0, 0, 1, 0, 0}, "mutation-base")
	c.RawRequest = mut
	if len(mut) == 0 {
		c.RawRequest = []byte{}
		return "", "" // an empty value cannot be chunked; covered by C14
	}
	res, infra := w.handshake(c, storage)
	if infra != "" {
		r.InfraError(infra)
		return "", ""
	}
	if res.Panic != "" {
		return "panic:mutation", fmt.Sprintf("%s at %d of the ALPN-carried request: Accept panicked: %s", kind, pos, res.Panic)
	}
	if res.Authenticated {
		// the decoded request must still carry node 1's valid signatures
		dec := new(types.GenerateServerCertificatesRequest)
		ok := proto.Unmarshal(mut, dec) == nil &&
			ed25519.Verify(w.n1.K.Pub, dec.Nonce, dec.NonceSignature) && len(dec.Nonce) > 0 &&
			(len(dec.ClientState) == 0 || ed25519.Verify(w.n1.K.Pub, dec.ClientState, dec.ClientStateSignature))
		if !ok {
			return "authenticated-mutated-request:" + kind, fmt.Sprintf("%s at %d of the ALPN-carried request still authenticated although the decoded request no longer carries valid signatures of the node", kind, pos)
		}
		r.Branch("mutation-harmless")
	} else {
		r.Branch("mutation-rejected")
	}
	return "", ""
}

// ---- histories: register / remove / connect with the real dialer

type hstate struct {
	st    *harness.MemStore
	nodes [2]*harness.MemStore // node-side stores (nil = never created)
}

func (w *world) histKey(h hstate) string {
	var p []string
	for i, k := range []*harness.CertKey{w.n1.K, w.n2.K} {
		reg := h.st.NodeInfo(k.KeyId) != nil
		has := "no-creds"
		if h.nodes[i] != nil {
			has = "pending"
			if c, err := types.LoadNodeCredentials(harness.Ctx, h.nodes[i].Clone(), nodeenrollment.CurrentId); err == nil && len(c.CertificateBundles) > 0 {
				has = "has-certs"
			}
		}
		p = append(p, fmt.Sprintf("node%d:registered=%v,%s", i+1, reg, has))
	}
	return strings.Join(p, " ")
}

func (w *world) applyHist(h hstate, label string, r *engine.Report) (hstate, string, string) {
	vclock.Freeze(connectTime)
	nh := hstate{st: h.st.Clone()}
	for i := range h.nodes {
		if h.nodes[i] != nil {
			nh.nodes[i] = h.nodes[i].Clone()
		}
	}
	i := int(label[len(label)-1] - '1')
	key := []*harness.CertKey{w.n1.K, w.n2.K}[i]
	enc := []*harness.EncKey{w.n1.E, w.n2.E}[i]
	switch {
	case strings.HasPrefix(label, "register"):
		if nh.st.NodeInfo(key.KeyId) != nil {
			return h, "", "skip"
		}
		if nh.nodes[i] == nil {
			nh.nodes[i] = harness.NewMemStore()
			if err := harness.NodeCreds(key, enc, harness.Bytes(fmt.Sprintf("hist-nonce-%d", i), 32)).Store(harness.Ctx, nh.nodes[i]); err != nil {
				panic(err)
			}
		}
		c, err := types.LoadNodeCredentials(harness.Ctx, nh.nodes[i], nodeenrollment.CurrentId)
		if err != nil {
			panic(err)
		}
		if len(c.RegistrationNonce) == 0 {
			// the node already consumed its nonce: the operator authorizes a fresh request of the same key
			c.RegistrationNonce = harness.Bytes(fmt.Sprintf("hist-renonce-%d", i), 32)
		}
		req, err := c.CreateFetchNodeCredentialsRequest(harness.Ctx)
		if err != nil {
			panic(err)
		}
		if _, err := registration.AuthorizeNode(harness.Ctx, nh.st, req); err != nil {
			return h, "register-failed", err.Error()
		}
	case strings.HasPrefix(label, "remove"):
		if nh.st.NodeInfo(key.KeyId) == nil {
			return h, "", "skip"
		}
		nh.st.DeleteRaw("nodeinfo", key.KeyId)
	case strings.HasPrefix(label, "connect"):
		if nh.nodes[i] == nil {
			return h, "", "skip"
		}
		registered := h.st.NodeInfo(key.KeyId) != nil
		var derr error
		rs, err := harness.Serve(harness.ServerConfig{Storage: nh.st, Unix: true}, func(addr string) {
			conn, e := protocol.Dial(harness.Ctx, nh.nodes[i], addr)
			derr = e
			if conn != nil {
				conn.Close()
			}
		})
		defer harness.CloseAll(rs)
		if err != nil {
			r.InfraError(err.Error())
			return h, "", "skip"
		}
		auth := 0
		for _, a := range rs {
			if a.Panic != "" {
				return h, "panic:history", "Accept panicked: " + a.Panic
			}
			if a.Err == nil && strings.HasPrefix(a.Proto, nodeenrollment.FetchNodeCredsNextProtoV1Prefix) {
				return h, "fetch-connection-returned", "Accept returned a connection negotiated with the fetch protocol"
			}
			if a.Authenticated {
				auth++
			}
		}
		switch {
		case auth > 0 && !registered:
			return h, "history:authenticated-unregistered", fmt.Sprintf("node %d has no record in server storage but its dial yielded an authenticated connection (state {%s})", i+1, w.histKey(h))
		case auth > 0:
			r.Branch("history:authenticated")
		case registered:
			r.Outcome("history:registered-but-not-connected:" + fmt.Sprint(derr != nil))
		default:
			r.Branch("history:rejected")
		}
	}
	return nh, "", ""
}

func (w *world) runHistories(c *engine.Ctx, r *engine.Report) {
	depth := 4
	if c.Thorough() {
		depth = 6
	}
	labels := []string{"register1", "register2", "remove1", "remove2", "connect1", "connect2"}
	init := hstate{st: harness.NewMemStore()}
	vclock.Freeze(harness.T0)
	harness.InitRoots(init.st)
	vclock.Freeze(connectTime.AddDate(0, 0, -8)) // both roots valid for these histories
	b := &engine.BFS[hstate]{
		Init: []hstate{init}, Key: w.histKey, MaxDepth: depth, Ctx: c, Report: r,
		Expand: func(h hstate, path []string, emit func(string, hstate)) {
			for _, l := range labels {
				nh, sig, msg := w.applyHist(h, l, r)
				if msg == "skip" {
					continue
				}
				r.Eval(1)
				full := append(append([]string{}, path...), l)
				if sig != "" {
					r.Violate(sig, fmt.Sprintf("history %v: %s", full, msg), kase{Kind: "history", Path: full, Seed: c.Seed})
					continue
				}
				emit(l, nh)
			}
		},
	}
	b.Run()
}

func allVectors(maxDishonest int) []vector {
	var out []vector
	var v vector
	var rec func(i int)
	rec = func(i int) {
		if i == len(dims) {
			if maxDishonest < 0 || v.dishonest() <= maxDishonest {
				out = append(out, v)
			}
			return
		}
		for x := range dims[i].Values {
			v[i] = x
			rec(i + 1)
		}
	}
	rec(0)
	return out
}

func run(c *engine.Ctx, r *engine.Report) {
	r.Need("authenticated", "honest-authenticated", "rejected", "mutation-rejected", "history:authenticated", "history:rejected", "fetch-never-returned", "after-fetch-judged")
	w := newWorld(c.Seed)
	max := 3
	if c.Thorough() {
		max = -1
	}
	vs := allVectors(max)
	if c.Shard == 0 {
		r.Extra["vectors_total"] = float64(len(vs))
	}
	i := 0
	for _, v := range vs {
		i++
		if !c.Mine(i) {
			continue
		}
		if c.Expired() {
			r.Incomplete("deadline reached during the capability product")
			break
		}
		r.Eval(1)
		if sig, msg := w.oneVector(v, r); sig != "" {
			r.Violate(sig, msg, kase{Kind: "vector", Vector: v, Seed: c.Seed})
			continue
		}
		r.Nontrivial(1)
		if i%997 == 1 {
			r.Sample(v.String())
		}
	}
	// every vector with at most one dishonest coordinate, as the second connection after a fetch handshake
	for _, v := range allVectors(1) {
		for _, authd := range []bool{false, true} {
			i++
			if !c.Mine(i) {
				continue
			}
			r.Eval(1)
			if sig, msg := w.oneAfterFetch(v, authd, r); sig != "" {
				r.Violate(sig, msg, kase{Kind: "after-fetch", Vector: v, Path: []string{fmt.Sprint(authd)}, Seed: c.Seed})
				continue
			}
			r.Nontrivial(1)
		}
	}
	for _, arr := range []string{"fetch-only", "application-proto-first", "application-proto-last", "preference-first", "unknown-library-like-first"} {
		for _, authd := range []bool{false, true} {
			i++
			if !c.Mine(i) {
				continue
			}
			r.Eval(1)
			if sig, msg := w.oneFetch(arr, authd, r); sig != "" {
				r.Violate(sig, msg, kase{Kind: "fetch", Path: []string{arr, fmt.Sprint(authd)}, Seed: c.Seed})
				continue
			}
			r.Nontrivial(1)
		}
	}
	raw, _ := w.honestRaw()
	for _, kind := range []string{"flip", "trunc"} {
		n := len(raw) * 8
		if kind == "trunc" {
			n = len(raw)
		}
		for pos := 0; pos < n; pos++ {
			i++
			if !c.Mine(i) {
				continue
			}
			r.Eval(1)
			if sig, msg := w.oneMutation(kind, pos, r); sig != "" {
				r.Violate(sig, msg, kase{Kind: kind, Pos: pos, Seed: c.Seed})
				continue
			}
			r.Nontrivial(1)
		}
	}
	if c.Shard == 0 {
		w.runHistories(c, r)
	}
	vclock.Reset()
}

func replay(c *engine.Ctx, raw json.RawMessage) (string, bool) {
	var k kase
	if err := json.Unmarshal(raw, &k); err != nil {
		return err.Error(), false
	}
	w := newWorld(k.Seed)
	defer vclock.Reset()
	r := engine.NewReport()
	var sig, msg string
	switch k.Kind {
	case "vector":
		sig, msg = w.oneVector(k.Vector, r)
	case "flip", "trunc":
		sig, msg = w.oneMutation(k.Kind, k.Pos, r)
	case "fetch":
		sig, msg = w.oneFetch(k.Path[0], k.Path[1] == "true", r)
	case "after-fetch":
		sig, msg = w.oneAfterFetch(k.Vector, k.Path[0] == "true", r)
	case "history":
		h := hstate{st: harness.NewMemStore()}
		vclock.Freeze(harness.T0)
		harness.InitRoots(h.st)
		for _, l := range k.Path {
			var m string
			h, sig, m = w.applyHist(h, l, r)
			if sig != "" {
				msg = m
				break
			}
		}
	}
	if sig == "" {
		return fmt.Sprintf("case %+v: holds", k), false
	}
	return sig + ": " + msg, true
}

func init() {
	engine.Register(&engine.CheckDef{
		ID:    "C02",
		Level: "exploration",
		Rule: "hand-built TLS 1.3 clients against the real InterceptingListener over a loopback socket, 15 virtual days after enrollment (one root expired, one valid): product of 10 capability dimensions (holds key 2 x certificate 8 x record 2 x nonce signature 4 x skip flag 2 x node-id hint 5 x client state 3 x certificate preference 3 x common name 2 x leading fetch-protocol entry 4 (none, empty, garbage, well-formed request of an unregistered key) = 92160; quick: all vectors with at most 3 dishonest coordinates); every single-bit flip and truncation of an honest ALPN-carried request; well-formed fetch handshakes (authorized and not) in 5 ALPN arrangements, none of which may yield a connection; every vector with at most one dishonest coordinate again as the second connection of a listener that has just served a fetch handshake; BFS over register / remove / connect of two nodes with the real dialer; oracle: authenticated => possession proof, chain to a currently valid root, nonce (and state) signed by the key of a record the property says is consulted; " +
			"distinct_nontrivial counts handshakes (distinct by construction) that completed on the server side with a verdict",
		Assumptions: []string{"forged = signed with another pool key; captured signatures are modelled by giving the adversary the signature but not the TLS key", "the honest vector must authenticate (vacuity guard), other entitled vectors may be rejected"},
		Shards:      func(c *engine.Ctx) int { return 16 },
		Run:         run,
		Replay:      replay,
	})
}
