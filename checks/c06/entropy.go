package c06

import (
	"crypto/hmac"
	"crypto/sha256"
	"fmt"

	"github.com/hashicorp/nodeenrollment"
	"github.com/hashicorp/nodeenrollment/registration"
	"github.com/hashicorp/nodeenrollment/types"
	"github.com/mr-tron/base58"
	"google.golang.org/protobuf/proto"
	"verif/engine"
	"verif/harness"
)

// What the server persists for a token must not suffice to rebuild it. The
// stored record's id is base58(nonce || HMAC(key, "")): the nonce is there in
// clear, so the token is out of reach only while the 32-byte key has the
// entropy of the random source. The application may supply that source
// (WithRandomReader); a reader is allowed to deliver fewer bytes than asked
// without an error. Every (read number, delivered count) is tried: creation
// must fail, or every byte of nonce and key must come from the reader - and
// for the smallest counts the rebuild from the stored id is actually carried
// out and the rebuilt token presented.

// shortReader delivers the bytes of a deterministic stream, but only n bytes
// on its k-th Read (nil error, as io.Reader permits).
type shortReader struct {
	src       interface{ Read([]byte) (int, error) }
	call      int
	shortCall int
	n         int
	delivered [][]byte
}

func (s *shortReader) Read(p []byte) (int, error) {
	s.call++
	q := p
	if s.call == s.shortCall && s.n < len(p) {
		q = p[:s.n]
	}
	n, err := s.src.Read(q)
	s.delivered = append(s.delivered, append([]byte{}, q[:n]...))
	return n, err
}

type entropyCase struct {
	Entropy   bool `json:"entropy"`
	ShortCall int  `json:"short_read_number"`
	N         int  `json:"bytes_delivered"`
	Wrapper   bool `json:"wrapper"`
	Seed      int64
}

func entropyOne(k entropyCase, r *engine.Report) (string, string) {
	st := harness.NewMemStore()
	harness.InitRoots(st)
	rd := &shortReader{src: harness.DetRand(fmt.Sprintf("c06-entropy-%d", k.Seed)), shortCall: k.ShortCall, n: k.N}
	opt := []nodeenrollment.Option{nodeenrollment.WithRandomReader(rd)}
	if k.Wrapper {
		opt = append(opt, nodeenrollment.WithStorageWrapper(harness.Wrapper("c06-entropy", k.Seed)))
	}
	id, token, err := registration.CreateServerLedActivationToken(harness.Ctx, st, &types.ServerLedRegistrationRequest{}, opt...)
	desc := fmt.Sprintf("random source delivering %d bytes on read #%d (storage wrapper %v)", k.N, k.ShortCall, k.Wrapper)
	if err != nil {
		if ids := st.Ids("token"); len(ids) != 0 {
			return "entropy:failed-creation-persisted", desc + ": creation failed but a token record was persisted"
		}
		r.Branch("entropy:short-read-refused")
		return "", ""
	}
	tn, perr := harness.ParseToken(token)
	if perr != nil {
		return "entropy:harness", "cannot parse the created token: " + perr.Error()
	}
	ids := st.Ids("token")
	if len(ids) != 1 || ids[0] != id {
		return "entropy:harness", fmt.Sprintf("expected exactly the returned id in storage, have %v", ids)
	}
	// the attacker's view: the stored id only
	raw, derr := base58.FastBase58Decoding(ids[0])
	if derr != nil || len(raw) != nodeenrollment.NonceSize+sha256.Size {
		return "entropy:harness", "stored id has an unexpected form"
	}
	nonce, tag := raw[:nodeenrollment.NonceSize], raw[nodeenrollment.NonceSize:]
	tries := 0
	for guess := 0; guess < 256*256; guess++ {
		key := make([]byte, 32)
		key[0], key[1] = byte(guess), byte(guess>>8)
		tries++
		if hmac.Equal(hmac.New(sha256.New, key).Sum(nil), tag) {
			b, _ := proto.Marshal(&types.ServerLedActivationTokenNonce{Nonce: nonce, HmacKeyBytes: key})
			rebuilt := nodeenrollment.ServerLedActivationTokenPrefix + base58.FastBase58Encoding(b)
			return "entropy:persisted-record-yields-token", fmt.Sprintf("%s: creation succeeded; the token's key has only the delivered bytes of entropy and %d offline guesses against the stored id rebuild the token (rebuilt == issued: %v)", desc, tries, rebuilt == token)
		}
	}
	// beyond brute force: every byte of nonce and key must have been delivered by the source
	want := 0
	for _, d := range rd.delivered {
		want += len(d)
	}
	if want < len(tn.Nonce)+len(tn.HmacKeyBytes) {
		return "entropy:token-bytes-not-from-the-random-source", fmt.Sprintf("%s: creation succeeded with a %d-byte nonce and a %d-byte key although the source delivered only %d bytes in total", desc, len(tn.Nonce), len(tn.HmacKeyBytes), want)
	}
	r.Branch("entropy:full-reads-accepted")
	return "", ""
}

func entropyCases(seed int64) []entropyCase {
	var out []entropyCase
	for _, w := range []bool{false, true} {
		out = append(out, entropyCase{Entropy: true, ShortCall: 0, N: 32, Wrapper: w, Seed: seed}) // no short read
		for call := 1; call <= 2; call++ {
			for _, n := range []int{0, 1, 2, 16, 31} {
				out = append(out, entropyCase{Entropy: true, ShortCall: call, N: n, Wrapper: w, Seed: seed})
			}
		}
	}
	return out
}
