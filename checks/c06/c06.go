// Package c06: activation tokens are single-use, expiring and not recoverable
// from storage (E1 over create / use / authorize / remove / age / tamper
// histories in virtual time).
package c06

import (
	"bytes"
	"encoding/json"
	"fmt"
	"github.com/hashicorp/go-kms-wrapping/v2/extras/multi"
	"strings"
	"time"

	wrapping "github.com/hashicorp/go-kms-wrapping/v2"
	"github.com/hashicorp/nodeenrollment"
	"github.com/hashicorp/nodeenrollment/registration"
	"github.com/hashicorp/nodeenrollment/types"
	vclock "github.com/hashicorp/nodeenrollment/zz_verif/vclock"
	"github.com/mr-tron/base58"
	"google.golang.org/protobuf/proto"
	"google.golang.org/protobuf/types/known/timestamppb"
	"verif/engine"
	"verif/harness"
)

type config struct {
	Wrapper bool          `json:"wrapper"`
	Life    time.Duration `json:"life"`
	// Pooled: the storage wrapper is a pool whose encrypting key the operator
	// can rotate (earlier keys stay in the pool)
	Pooled bool `json:"pooled,omitempty"`
}

func (c config) String() string {
	if c.Pooled {
		return fmt.Sprintf("wrapper=pooled,life=%v", c.Life)
	}
	return fmt.Sprintf("wrapper=%v,life=%v", c.Wrapper, c.Life)
}

var configs = []config{
	{false, time.Hour, false}, {true, time.Hour, false},
	{false, time.Nanosecond, false}, {true, time.Nanosecond, false},
	{false, nodeenrollment.DefaultMaximumServerLedActivationTokenLifetime, false}, {true, nodeenrollment.DefaultMaximumServerLedActivationTokenLifetime, false},
	// a maximum lifetime of zero: every token is too old one nanosecond after its creation
	{false, 0, false}, {true, 0, false},
	// a pooled storage wrapper, with the operator action "rotate the KMS key"
	{true, time.Hour, true},
}

type tokState struct {
	Issued   bool
	Created  time.Time // instant sealed at creation (harness knowledge)
	Tamper   string    // last tamper applied
	Consumed bool      // a use succeeded (model)
}

type state struct {
	st  *harness.MemStore
	now time.Time
	tok map[string]*tokState
	// rotated: the pool's encrypting key has been rotated (pooled configuration)
	rotated bool
}

func (s *state) clone() *state {
	c := &state{st: s.st.Clone(), now: s.now, tok: map[string]*tokState{}, rotated: s.rotated}
	for k, v := range s.tok {
		cp := *v
		c.tok[k] = &cp
	}
	return c
}

type world struct {
	cfg config
	p   *harness.Pool
	sw  wrapping.Wrapper
	// pooled configuration: the pool before and after the operator rotated its key
	poolBefore, poolAfter wrapping.Wrapper
	tok                   map[string]*harness.Token
	seed                  int64
}

func newWorld(cfg config, seed int64) *world {
	return &world{cfg: cfg, p: harness.NewPool(seed, 2, 2, 0, 2), sw: harness.SafeWrapper{Wrapper: harness.Wrapper("storage", seed)}, seed: seed,
		tok: map[string]*harness.Token{"T1": harness.TokenPreview("T1", seed), "T2": harness.TokenPreview("T2", seed)}}
}

func (w *world) buildPools() {
	a, err := multi.NewPooledWrapper(harness.Ctx, harness.Wrapper("storage", w.seed))
	if err != nil {
		panic(err)
	}
	b, err := multi.NewPooledWrapper(harness.Ctx, harness.Wrapper("storage", w.seed))
	if err != nil {
		panic(err)
	}
	if _, err := b.SetEncryptingWrapper(harness.Ctx, harness.Wrapper("storage-next-key", w.seed)); err != nil {
		panic(err)
	}
	w.poolBefore, w.poolAfter = harness.SafeWrapper{Wrapper: a}, harness.SafeWrapper{Wrapper: b}
	w.sw = w.poolBefore
}

func (w *world) opts() []nodeenrollment.Option {
	o := []nodeenrollment.Option{nodeenrollment.WithMaximumServerLedActivationTokenLifetime(w.cfg.Life)}
	if w.cfg.Wrapper {
		// the server's option list also sets its certificate lifetime - a
		// duration of the same type, and of no concern to tokens
		o = append(o, nodeenrollment.WithCertificateLifetime(7*time.Minute))
	}
	if w.cfg.Wrapper {
		o = append(o, nodeenrollment.WithStorageWrapper(w.sw))
	}
	return o
}

func (w *world) initial() *state {
	vclock.Freeze(harness.T0)
	if w.cfg.Pooled {
		w.buildPools()
	}
	s := &state{st: harness.NewMemStore(), now: harness.T0, tok: map[string]*tokState{"T1": {}, "T2": {}}}
	harness.InitRoots(s.st, w.opts()...)
	return s
}

func (w *world) stored(s *state, tn string) *types.ServerLedActivationToken {
	raw, ok := s.st.Raw("token", w.tok[tn].Id)
	if !ok {
		return nil
	}
	t := new(types.ServerLedActivationToken)
	if err := proto.Unmarshal(raw, t); err != nil {
		panic(err)
	}
	return t
}

// effective returns the creation instant that governs expiry per the
// property: with a storage wrapper the instant sealed at creation; without
// one, whatever the stored (clear) marshaled value decodes to.
func (w *world) effective(s *state, tn string) (time.Time, bool) {
	if w.cfg.Wrapper {
		return s.tok[tn].Created, true
	}
	t := w.stored(s, tn)
	if t == nil {
		return time.Time{}, false
	}
	ts := new(timestamppb.Timestamp)
	if err := proto.Unmarshal(t.CreationTimeMarshaled, ts); err != nil {
		return time.Time{}, false
	}
	return ts.AsTime(), true
}

func ageClass(d, life time.Duration) string {
	if d > life+time.Nanosecond {
		return "old"
	}
	return d.String()
}

func (w *world) keyOf(s *state) string {
	var parts []string
	for _, tn := range []string{"T1", "T2"} {
		ts := s.tok[tn]
		switch {
		case !ts.Issued:
			parts = append(parts, tn+"=unissued")
		default:
			present := w.stored(s, tn) != nil
			eff, ok := w.effective(s, tn)
			age := "?"
			if ok {
				age = ageClass(s.now.Sub(eff), w.cfg.Life)
			}
			parts = append(parts, fmt.Sprintf("%s=present:%v,age:%s,sealed-age:%s,tamper:%s,consumed:%v", tn, present, age, ageClass(s.now.Sub(ts.Created), w.cfg.Life), ts.Tamper, ts.Consumed))
		}
	}
	for i, k := range w.p.K {
		if n := s.st.NodeInfo(k.KeyId); n != nil {
			parts = append(parts, fmt.Sprintf("K%d=rec(%s)", i+1, harness.Lookup(n.RegistrationNonce, map[string][]byte{"N1": w.p.N[0], "T1": w.tok["T1"].Bytes, "T2": w.tok["T2"].Bytes})))
		}
	}
	if s.rotated {
		parts = append(parts, "kms-key-rotated")
	}
	return strings.Join(parts, " ")
}

var tokenState = harness.Struct(map[string]any{"from": "token-T1"})

// apply executes one transition on a copy; ns == nil means not enabled.
func (w *world) apply(s *state, label string, r *engine.Report) (ns *state, sig, msg string) {
	vclock.Freeze(s.now)
	f := strings.Split(label, ":")
	ns = s.clone()
	if w.cfg.Pooled {
		// the wrapper the server is configured with in this state
		w.sw = w.poolBefore
		if s.rotated {
			w.sw = w.poolAfter
		}
	}
	switch f[0] {
	case "rotate-kms-key":
		if !w.cfg.Pooled || s.rotated {
			return nil, "", ""
		}
		ns.rotated = true
		return ns, "", ""
	case "create":
		tn := f[1]
		if s.tok[tn].Issued {
			return nil, "", ""
		}
		o := w.opts()
		if tn == "T1" {
			o = append(o, nodeenrollment.WithState(tokenState))
		}
		t, err := harness.CreateToken(ns.st, tn, w.seed, o...)
		if err != nil {
			return ns, "create-failed", "CreateServerLedActivationToken failed: " + err.Error()
		}
		ns.tok[tn] = &tokState{Issued: true, Created: s.now}
		// persistence: what is stored must not suffice to rebuild the token
		raw, _ := ns.st.Raw("token", t.Id)
		tn2 := new(types.ServerLedActivationTokenNonce)
		if err := proto.Unmarshal(t.Bytes, tn2); err != nil {
			panic(err)
		}
		idBytes, _ := base58.FastBase58Decoding(t.Id)
		switch {
		case bytes.Contains(raw, tn2.HmacKeyBytes) || bytes.Contains(idBytes, tn2.HmacKeyBytes) || bytes.Contains(raw, []byte(base58.FastBase58Encoding(tn2.HmacKeyBytes))):
			return ns, "persist:hmac-key-stored", "the stored token record or its id contains the token's HMAC key"
		case bytes.Contains(raw, t.Bytes) || bytes.Contains(raw, []byte(t.String)) || bytes.Contains(idBytes, t.Bytes):
			return ns, "persist:token-stored", "the stored token record or its id contains the whole token"
		}
		r.Branch("created")
	case "auth":
		k := w.p.K[int(f[1][1]-'1')]
		if s.st.NodeInfo(k.KeyId) != nil {
			return nil, "", ""
		}
		req := harness.SignedRequest(harness.Info(k, w.p.E[0], w.p.N[0]), k)
		if _, err := registration.AuthorizeNode(harness.Ctx, ns.st, req, w.opts()...); err != nil {
			panic(err)
		}
	case "rm":
		k := w.p.K[int(f[1][1]-'1')]
		if s.st.NodeInfo(k.KeyId) == nil {
			return nil, "", ""
		}
		ns.st.DeleteRaw("nodeinfo", k.KeyId)
	case "age":
		var d time.Duration
		switch f[1] {
		case "life-1ns":
			d = w.cfg.Life - time.Nanosecond
		case "1ns":
			d = time.Nanosecond
		case "2life":
			d = 2 * w.cfg.Life
		}
		if d <= 0 {
			return nil, "", ""
		}
		any := false
		for _, t := range s.tok {
			if t.Issued && s.now.Sub(t.Created) <= w.cfg.Life+time.Nanosecond {
				any = true
			}
		}
		if !any {
			return nil, "", "" // nothing can change by waiting
		}
		ns.now = s.now.Add(d)
	case "tamper":
		tn, kind := f[1], f[2]
		t := w.stored(s, tn)
		if t == nil {
			return nil, "", ""
		}
		switch kind {
		case "clear-time":
			t.CreationTime = timestamppb.New(s.now)
		case "transplant":
			other := "T1"
			if tn == "T1" {
				other = "T2"
			}
			o := w.stored(s, other)
			if o == nil {
				return nil, "", ""
			}
			t.CreationTimeMarshaled = o.CreationTimeMarshaled
		case "record-copy":
			// the other token's whole stored record (its id field included) placed under this token's id.
			// Only with a storage wrapper: the property promises nothing about edited records in an
			// unwrapped store (there the copy makes the use remove the *other* token's record).
			if !w.cfg.Wrapper {
				return nil, "", ""
			}
			other := "T1"
			if tn == "T1" {
				other = "T2"
			}
			o := w.stored(s, other)
			if o == nil || s.tok[other].Tamper != "" {
				// only an *untouched* record is copied: a copy of an already edited
				// record composes that edit (e.g. the known downgrade finding, or an
				// id field that makes the use remove another record) with this one,
				// and re-inserting records is something no storage-side sealing can prevent
				return nil, "", ""
			}
			t = o
		case "flip":
			if len(t.CreationTimeMarshaled) == 0 {
				return nil, "", ""
			}
			b := append([]byte{}, t.CreationTimeMarshaled...)
			b[len(b)/2] ^= 0x10
			t.CreationTimeMarshaled = b
		case "downgrade":
			t.WrappingKeyId = ""
			t.CreationTime = timestamppb.New(s.now)
			t.CreationTimeMarshaled, _ = proto.Marshal(t.CreationTime)
		}
		b, _ := proto.Marshal(t)
		ns.st.SetRaw("token", w.tok[tn].Id, b)
		ns.tok[tn].Tamper = kind
	case "use":
		tn := f[1]
		k := w.p.K[int(f[2][1]-'1')]
		e := w.p.E[int(f[2][1]-'1')]
		ts := s.tok[tn]
		hadRecord := s.st.NodeInfo(k.KeyId) != nil
		idsBefore := strings.Join(s.st.Ids("nodeinfo"), ",")
		req := harness.SignedRequest(harness.Info(k, e, w.tok[tn].Bytes), k)
		resp, err := registration.FetchNodeCredentials(harness.Ctx, ns.st, req, w.opts()...)
		ok := err == nil && harness.HasCreds(resp)
		idsAfter := strings.Join(ns.st.Ids("nodeinfo"), ",")
		where := fmt.Sprintf("[%s] use of %s by K%s at now=T0+%v in state {%s}", w.cfg, tn, f[2][1:], s.now.Sub(harness.T0), w.keyOf(s))
		if !ok {
			if idsAfter != idsBefore {
				return ns, "failed-use-created-record", fmt.Sprintf("%s failed (%v) but node records changed: %s -> %s", where, err, idsBefore, idsAfter)
			}
			r.Branch("use-rejected")
			return ns, "", ""
		}
		// the use enrolled a node: everything the property demands must hold
		eff, effOK := w.effective(s, tn)
		switch {
		case !ts.Issued:
			return ns, "use:never-issued", where + " succeeded although the token was never issued"
		case ts.Consumed:
			return ns, "use:reuse", where + " succeeded although the token had already enrolled a node"
		case hadRecord:
			return ns, "use:over-existing-record", where + " succeeded although the key already has a node record"
		case !effOK || s.now.Sub(eff) > w.cfg.Life:
			tag := ts.Tamper
			if tag == "" {
				tag = "untampered"
			}
			return ns, fmt.Sprintf("use:expired:wrapper=%v:%s", w.cfg.Wrapper, tag), fmt.Sprintf("%s succeeded although the token's age %v exceeds the maximum lifetime %v (creation governing expiry: T0+%v; last edit of the stored record: %s)", where, s.now.Sub(eff), w.cfg.Life, eff.Sub(harness.T0), tag)
		}
		ns.tok[tn].Consumed = true
		if w.stored(ns, tn) != nil {
			return ns, "use:token-left-usable", where + " succeeded but the token record is still in storage"
		}
		if tn == "T1" {
			n, lerr := types.LoadNodeInformation(harness.Ctx, ns.st, k.KeyId, w.opts()...)
			if lerr != nil || !proto.Equal(n.State, tokenState) {
				return ns, "use:state-not-carried", where + " succeeded but the node record does not carry the token's state"
			}
		}
		if s.now.Sub(ts.Created) == w.cfg.Life {
			r.Branch("use-ok-at-exact-lifetime")
		}
		r.Branch("use-ok")
	}
	return ns, "", ""
}

func labels() []string {
	ls := []string{"create:T1", "create:T2", "auth:K1", "auth:K2", "rm:K1", "rm:K2", "age:life-1ns", "age:1ns", "age:2life", "rotate-kms-key"}
	for _, t := range []string{"T1", "T2"} {
		for _, k := range []string{"K1", "K2"} {
			ls = append(ls, "use:"+t+":"+k)
		}
		for _, kind := range []string{"clear-time", "transplant", "record-copy", "flip", "downgrade"} {
			ls = append(ls, "tamper:"+t+":"+kind)
		}
	}
	return ls
}

type replayData struct {
	Config config   `json:"config"`
	Path   []string `json:"path"`
	Seed   int64    `json:"seed"`
}

func explore(c *engine.Ctx, r *engine.Report, cfg config) {
	w := newWorld(cfg, c.Seed)
	depth := 4
	if c.Thorough() {
		depth = 6
	}
	ls := labels()
	b := &engine.BFS[*state]{
		Init:     []*state{w.initial()},
		Key:      w.keyOf,
		MaxDepth: depth,
		Ctx:      c,
		Report:   r,
		Expand: func(s *state, path []string, emit func(string, *state)) {
			for _, l := range ls {
				ns, sig, msg := w.apply(s, l, r)
				if ns == nil {
					continue
				}
				r.Eval(1)
				full := append(append([]string{}, path...), l)
				if sig != "" {
					r.Violate(sig, msg+fmt.Sprintf(" (history %v)", full), replayData{cfg, full, c.Seed})
					continue
				}
				if strings.HasPrefix(l, "use:") && len(path) >= 2 && len(path) <= 3 {
					r.Sample(map[string]any{"config": cfg.String(), "history": full, "state_after": w.keyOf(ns)})
				}
				emit(l, ns)
			}
		},
	}
	b.Run()
	r.Nontrivial(r.States)
}

func run(c *engine.Ctx, r *engine.Report) {
	r.Need("created", "use-ok", "use-rejected", "entropy:short-read-refused", "entropy:full-reads-accepted")
	for i, cfg := range configs {
		if c.Mine(i) {
			explore(c, r, cfg)
		}
	}
	vclock.Reset()
	for i, k := range entropyCases(c.Seed) {
		if !c.Mine(i) {
			continue
		}
		r.Eval(1)
		if sig, msg := entropyOne(k, r); sig != "" {
			r.Violate(sig, msg, k)
		}
	}
}

func replay(c *engine.Ctx, raw json.RawMessage) (string, bool) {
	var ek entropyCase
	if json.Unmarshal(raw, &ek) == nil && ek.Entropy {
		sig, msg := entropyOne(ek, engine.NewReport())
		return sig + ": " + msg, sig != ""
	}
	var rd replayData
	if err := json.Unmarshal(raw, &rd); err != nil {
		return err.Error(), false
	}
	w := newWorld(rd.Config, rd.Seed)
	s := w.initial()
	r := engine.NewReport()
	var out strings.Builder
	for i, l := range rd.Path {
		fmt.Fprintf(&out, "step %d %s on {%s}\n", i, l, w.keyOf(s))
		ns, sig, msg := w.apply(s, l, r)
		if sig != "" {
			fmt.Fprintf(&out, "  VIOLATION %s: %s\n", sig, msg)
			return out.String(), true
		}
		if ns != nil {
			s = ns
		}
	}
	vclock.Reset()
	return out.String() + "no violation", false
}

func init() {
	engine.Register(&engine.CheckDef{
		ID:    "C06",
		Level: "model_checking",
		Rule: "BFS (quick depth 4, thorough depth 6) over {create T1|T2, use Ti by K1|K2, authorize Kj, remove Kj, age by lifetime-1ns | 1ns | 2*lifetime, tamper Ti with clear-time | transplant of the sealed value | copy of the other token's whole record | bit-flip | downgrade} on the real registration code under a frozen virtual clock, for 9 configurations (storage wrapper off/on x maximum lifetime 1h, 1ns, 14d, 0; and a pooled storage wrapper with the operator action 'rotate the KMS key'); state key = per token (presence, exact age up to lifetime+1ns, tamper tag, consumed) and per key whether it has a record; " +
			"token creation with an application-supplied random source that delivers {0,1,2,16,31} bytes (nil error) on its first / second read, with and without a storage wrapper: creation must fail, else the stored id is attacked with 65536 offline key guesses and every token byte must have come from the source; " +
			"distinct_nontrivial = number of canonical states reached over all configurations",
		Assumptions: []string{"the storage wrapper is length-guarded: an edited record can hand go-kms-wrapping's aead wrapper a ciphertext shorter than its nonce, which panics inside that dependency (not attributed to this library)", "the tie age == lifetime is not constrained (the property says 'exceeds')", "without a storage wrapper the stored clear creation time is what governs expiry (the property promises tamper resistance only with a wrapper)"},
		Shards:      func(c *engine.Ctx) int { return 9 },
		Run:         run,
		Replay:      replay,
	})
}
