// Package c09: trust is continuous across root rotation histories (E1: every
// schedule of server rotation calls and node (re-)enrollments that respects the
// two cadence bounds, on a time grid up to a horizon, in virtual time, with a
// real handshake at every reachable grid state and the real validity filters
// at every critical instant in between).
package c09

import (
	"crypto/x509"
	"encoding/json"
	"errors"
	"fmt"
	"sort"
	"strings"
	"time"

	"github.com/hashicorp/nodeenrollment"
	"github.com/hashicorp/nodeenrollment/protocol"
	"github.com/hashicorp/nodeenrollment/registration"
	"github.com/hashicorp/nodeenrollment/rotation"
	nodetls "github.com/hashicorp/nodeenrollment/tls"
	"github.com/hashicorp/nodeenrollment/types"
	vclock "github.com/hashicorp/nodeenrollment/zz_verif/vclock"
	"google.golang.org/protobuf/proto"
	"verif/engine"
	"verif/harness"
)

const unit = time.Hour

type config struct {
	Life int `json:"life"` // grid units
	NB   int `json:"nb"`
	NA   int `json:"na"`
	R    int `json:"server_interval"`
	E    int `json:"node_interval"`
}

func (c config) span() int { return c.Life + c.NA - c.NB }
func (c config) String() string {
	return fmt.Sprintf("life=%d nb=%d na=%d (span %d) server-interval=%d node-interval=%d", c.Life, c.NB, c.NA, c.span(), c.R, c.E)
}

func (c config) opts() []nodeenrollment.Option {
	// (the periodic caller forwards its "start over" switch, which is off)
	return []nodeenrollment.Option{nodeenrollment.WithReinitializeRoots(false), nodeenrollment.WithCertificateLifetime(time.Duration(c.Life) * unit),
		nodeenrollment.WithNotBeforeClockSkew(time.Duration(c.NB) * unit), nodeenrollment.WithNotAfterClockSkew(time.Duration(c.NA) * unit)}
}

func configs(thorough bool) []config {
	var out []config
	for _, p := range [][3]int{{8, 0, 0}, {8, -1, 1}, {16, -2, 0}} {
		span := p[0] + p[2] - p[1]
		// short server intervals (with a node that follows its own bound) and
		// long ones up to span-1 ("intervals shorter than the validity span")
		rs := []int{1, 2, 3, span - 1}
		if p == [3]int{8, 0, 0} {
			// a late but legal server call with a node that still has a bound of
			// one unit: enrollments fall between the current root's expiry and
			// the promotion of the (valid) next one
			rs = []int{1, 2, 3, span - 2, span - 1}
		}
		if thorough {
			rs = []int{1, 2, 3, 5, span / 2, span - 2, span - 1}
		}
		seen := map[int]bool{}
		for _, r := range rs {
			if seen[r] || r < 1 || r >= span {
				continue
			}
			seen[r] = true
			c := config{Life: p[0], NB: p[1], NA: p[2], R: r}
			nb := -c.NB
			// node interval: the largest grid value <= (span - R)/2 - |nb|
			c.E = (c.span()-r)/2 - nb
			if 2*(c.E+nb) > c.span()-r {
				c.E--
			}
			if c.E < 1 {
				c.E = 0 // the node bound is below one grid unit: only the rotation clause is explored
			}
			out = append(out, c)
		}
	}
	return out
}

type state struct {
	st, nd      *harness.MemStore
	now         time.Time
	sinceRotate int
	sinceEnroll int
	enrolled    bool
	rotatedNow  bool
	enrolledNow bool
	faultedNow  bool
	ticks       int
	gen         int // node credential generation (names fresh keys)
}

func (s *state) clone() *state {
	c := *s
	c.st, c.nd = s.st.Clone(), s.nd.Clone()
	return &c
}

type world struct {
	cfg            config
	seed           int64
	dialEverywhere bool
}

func rel(t, now time.Time) string { return fmt.Sprint(t.Sub(now).Round(time.Second)) }

func (w *world) roots(s *state) *types.RootCertificates {
	r, err := types.LoadRootCertificates(harness.Ctx, s.st.Clone())
	if err != nil {
		panic(err)
	}
	return r
}

func (w *world) creds(s *state) *types.NodeCredentials {
	c, err := types.LoadNodeCredentials(harness.Ctx, s.nd.Clone(), nodeenrollment.CurrentId)
	if err != nil {
		return nil
	}
	return c
}

func (w *world) keyOf(s *state) string {
	r := w.roots(s)
	parts := []string{
		fmt.Sprintf("cur(%s..%s) next(%s..%s)", rel(r.Current.NotBefore.AsTime(), s.now), rel(r.Current.NotAfter.AsTime(), s.now), rel(r.Next.NotBefore.AsTime(), s.now), rel(r.Next.NotAfter.AsTime(), s.now)),
		fmt.Sprintf("sinceRotate=%d sinceEnroll=%d flags=%v/%v/%v", s.sinceRotate, s.sinceEnroll, s.enrolled, s.rotatedNow, s.enrolledNow),
	}
	if c := w.creds(s); c != nil {
		for _, b := range c.CertificateBundles {
			who := "gone"
			switch string(b.CaCertificateDer) {
			case string(r.Current.CertificateDer):
				who = "cur"
			case string(r.Next.CertificateDer):
				who = "next"
			}
			parts = append(parts, fmt.Sprintf("chain[%s](%s..%s)", who, rel(b.CertificateNotBefore.AsTime(), s.now), rel(b.CertificateNotAfter.AsTime(), s.now)))
		}
	}
	return strings.Join(parts, " ")
}

// usable evaluates, with the real filters under the virtual clock at instant
// t, whether the node holds a chain that is valid and issued by a root the
// server currently trusts.
func (w *world) usable(s *state, t time.Time) (bool, string) {
	vclock.Freeze(t)
	defer vclock.Freeze(s.now)
	c := w.creds(s)
	if c == nil || len(c.CertificateBundles) == 0 {
		return false, "node has no credentials"
	}
	confs, err := nodetls.ClientConfigs(harness.Ctx, c)
	if err != nil {
		return false, "ClientConfigs: " + err.Error()
	}
	var nodeCAs []string
	for _, cf := range confs {
		for _, p := range cf.NextProtos {
			if strings.HasPrefix(p, nodeenrollment.CertificatePreferenceV1Prefix) {
				nodeCAs = append(nodeCAs, strings.TrimPrefix(p, nodeenrollment.CertificatePreferenceV1Prefix))
			}
		}
	}
	// the server side: certificates for a probe request, filtered by ServerConfig
	resp, err := nodetls.GenerateServerCertificates(harness.Ctx, s.st.Clone(), &types.GenerateServerCertificatesRequest{CertificatePublicKeyPkix: c.CertificatePublicKeyPkix, SkipVerification: true, Nonce: []byte("probe")})
	if err != nil {
		return false, "GenerateServerCertificates: " + err.Error()
	}
	sc, err := nodetls.ServerConfig(harness.Ctx, resp)
	if err != nil {
		return false, "ServerConfig: " + err.Error()
	}
	var serverCAs []string
	for _, b := range resp.CertificateBundles {
		ca, _ := x509.ParseCertificate(b.CaCertificateDer)
		// a CA is served iff the server's pool contains it
		pool := sc.ClientCAs
		if pool != nil {
			if _, err := ca.Verify(x509.VerifyOptions{Roots: pool, CurrentTime: ca.NotBefore, KeyUsages: []x509.ExtKeyUsage{x509.ExtKeyUsageAny}}); err == nil {
				serverCAs = append(serverCAs, harness.CaKeyId(b.CaCertificateDer))
			}
		}
	}
	for _, n := range nodeCAs {
		for _, sv := range serverCAs {
			if n == sv {
				return true, ""
			}
		}
	}
	sort.Strings(nodeCAs)
	sort.Strings(serverCAs)
	short := func(l []string) []string {
		var o []string
		for _, x := range l {
			o = append(o, x[:8])
		}
		return o
	}
	return false, fmt.Sprintf("node's currently valid chains are under %v, the server currently serves %v", short(nodeCAs), short(serverCAs))
}

func (w *world) dial(s *state) (bool, string) {
	vclock.Freeze(s.now)
	var derr error
	// (unix sockets: the thorough tier dials millions of times, more than there are ephemeral ports)
	rs, err := harness.Serve(harness.ServerConfig{Storage: s.st.Clone(), Unix: true}, func(addr string) {
		conn, e := protocol.Dial(harness.Ctx, s.nd.Clone(), addr)
		derr = e
		if conn != nil {
			conn.Close()
		}
	})
	defer harness.CloseAll(rs)
	if err != nil {
		return false, "INFRA " + err.Error()
	}
	for _, a := range rs {
		if a.Authenticated {
			return true, ""
		}
	}
	return false, fmt.Sprint(derr)
}

type replayData struct {
	Config config   `json:"config"`
	Path   []string `json:"path"`
	Seed   int64    `json:"seed"`
}

func (w *world) initial() *state {
	vclock.Freeze(harness.T0)
	s := &state{st: harness.NewMemStore(), nd: harness.NewMemStore(), now: harness.T0}
	if _, err := rotation.RotateRootCertificates(harness.Ctx, s.st, w.cfg.opts()...); err != nil {
		panic(err)
	}
	s.rotatedNow = true
	return s
}

// check evaluates the node clause at state s: a real dial now, and the
// predicate at every critical instant up to the next grid instant (if time
// may pass without an action).
func (w *world) check(s *state, mayTick bool, r *engine.Report) (string, string) {
	if !s.enrolled {
		return "", ""
	}
	p, pwhy := w.usable(s, s.now)
	// a real handshake at every grid state reached by time passing (thorough:
	// at every state); the validity filters decide everywhere
	if w.dialEverywhere || (!s.rotatedNow && !s.enrolledNow) {
		ok, why := w.dial(s)
		if strings.HasPrefix(why, "INFRA") {
			r.InfraError(why)
			return "", ""
		}
		if !ok {
			return "node-cannot-connect", fmt.Sprintf("at T0+%v the node (credentials %d units old) cannot connect to its server: %s; state {%s}", s.now.Sub(harness.T0), s.sinceEnroll, why, w.keyOf(s))
		}
		r.Branch("dial-ok")
		if !p {
			return "predicate-disagrees-with-dial", "the dial succeeded but the validity filters say no chain is usable: " + pwhy
		}
	}
	if !p {
		return "no-usable-chain", fmt.Sprintf("at T0+%v the node (credentials %d units old) has no chain that is valid and issued by a root the server serves: %s; state {%s}", s.now.Sub(harness.T0), s.sinceEnroll, pwhy, w.keyOf(s))
	}
	if !mayTick {
		return "", ""
	}
	// critical instants inside the next grid interval
	end := s.now.Add(unit)
	var inst []time.Time
	add := func(t time.Time) {
		for _, d := range []time.Duration{-time.Nanosecond, 0, time.Nanosecond} {
			x := t.Add(d)
			if x.After(s.now) && !x.After(end) {
				inst = append(inst, x)
			}
		}
	}
	rt := w.roots(s)
	for _, x := range []*types.RootCertificate{rt.Current, rt.Next} {
		add(x.NotBefore.AsTime())
		add(x.NotAfter.AsTime())
	}
	if c := w.creds(s); c != nil {
		for _, b := range c.CertificateBundles {
			add(b.CertificateNotBefore.AsTime())
			add(b.CertificateNotAfter.AsTime())
		}
	}
	for _, t := range inst {
		r.AddExtra("critical_instants_probed", 1)
		if p, why := w.usable(s, t); !p {
			return "no-usable-chain-between-grid-instants", fmt.Sprintf("at T0+%v (between grid instants, no action due yet) the node has no chain that is valid and issued by a root the server serves: %s; state at T0+%v {%s}", t.Sub(harness.T0), why, s.now.Sub(harness.T0), w.keyOf(s))
		}
		r.Branch("critical-instant-ok")
	}
	return "", ""
}

func (w *world) apply(s *state, label string, r *engine.Report) (*state, string, string) {
	vclock.Freeze(s.now)
	ns := s.clone()
	switch label {
	case "tick":
		if s.sinceRotate+1 > w.cfg.R || (s.enrolled && s.sinceEnroll+1 > w.cfg.E) {
			return nil, "", "" // the cadence bounds demand an action first
		}
		ns.now = s.now.Add(unit)
		ns.sinceRotate++
		ns.sinceEnroll++
		ns.rotatedNow, ns.enrolledNow, ns.faultedNow = false, false, false
		ns.ticks++
	case "rotate":
		if s.rotatedNow {
			return nil, "", ""
		}
		pre := w.roots(s)
		post, err := rotation.RotateRootCertificates(harness.Ctx, ns.st, w.cfg.opts()...)
		if err != nil {
			return ns, "rotate-failed", err.Error()
		}
		switch {
		case proto.Equal(pre, post):
			r.Branch("rotate:no-op")
		case string(post.Current.CertificateDer) == string(pre.Next.CertificateDer) && string(post.Next.CertificateDer) != string(pre.Current.CertificateDer):
			if pre.Next.NotBefore.AsTime().After(s.now) {
				return ns, "promoted-before-valid", "a root was promoted to current before it was valid"
			}
			r.Branch("rotate:promote")
		default:
			sig := "trust-reset"
			if s.sinceRotate >= w.cfg.Life+w.cfg.NA && !pre.Next.NotAfter.AsTime().After(s.now) {
				// the call is later than lifetime + not-after skew after the one
				// that minted the next root (which has therefore expired by its
				// own end), yet sooner than one validity span after it
				sig = "trust-reset:next-root-expired-within-one-span-of-its-minting"
			}
			return ns, sig, fmt.Sprintf("at T0+%v (last rotation call %d units ago, span %d) the rotation did not promote the previous next: roots before {cur %s..%s next %s..%s}", s.now.Sub(harness.T0), s.sinceRotate, w.cfg.span(),
				rel(pre.Current.NotBefore.AsTime(), s.now), rel(pre.Current.NotAfter.AsTime(), s.now), rel(pre.Next.NotBefore.AsTime(), s.now), rel(pre.Next.NotAfter.AsTime(), s.now))
		}
		ns.sinceRotate, ns.rotatedNow = 0, true
	case "rotate-fault-1", "rotate-fault-2", "rotate-fault-3":
		// a rotation call during which one storage operation fails: whatever it
		// returns, it must not disturb the chain of promotions (the operator retries)
		if s.rotatedNow {
			return nil, "", ""
		}
		pos := int(label[len(label)-1] - '0')
		ns.st.ResetLog()
		ns.st.Faults = map[int]error{pos: errors.New("injected storage failure")}
		pre := w.roots(s)
		post, err := rotation.RotateRootCertificates(harness.Ctx, ns.st, w.cfg.opts()...)
		hit := ns.st.Calls >= pos
		ns.st.Faults = nil
		if !hit {
			return nil, "", "" // the call made fewer storage operations
		}
		now, lerr := types.LoadRootCertificates(harness.Ctx, ns.st.Clone())
		switch {
		case lerr != nil:
			return ns, "trust-reset:roots-lost-by-failed-rotation", fmt.Sprintf("a rotation call that hit a storage failure (operation %d, returned err=%v) left storage without a loadable root set: %v", pos, err, lerr)
		case err == nil && !proto.Equal(post, now):
			return ns, "rotation-success-not-persisted", "a rotation call reported success for roots that are not in storage"
		case !proto.Equal(now, pre) && !(string(now.Current.CertificateDer) == string(pre.Next.CertificateDer)):
			return ns, "trust-reset:after-storage-failure", "after a rotation call that hit a storage failure the stored roots are neither the previous ones nor a promotion of the previous next"
		}
		r.Branch("rotate:with-storage-fault") // a self-loop on the unchanged tree: storage is as before
	case "enroll":
		if s.enrolledNow || w.cfg.E == 0 {
			return nil, "", ""
		}
		ns.gen++
		k, e := harness.NewCertKey(fmt.Sprintf("node-gen-%d", ns.gen), w.seed), harness.NewEncKey(fmt.Sprintf("node-enc-%d", ns.gen), w.seed)
		nonce := harness.Bytes(fmt.Sprintf("gen-nonce-%d", ns.gen), 32)
		if !s.enrolled {
			n, err := harness.Enroll(ns.st, k, e, nonce, nil, nil)
			if err != nil {
				return ns, "enroll-failed", err.Error()
			}
			ns.nd = n.Store
		} else {
			// credential rotation through the real API, authenticated by the current shared key
			cur := w.creds(s)
			fresh := harness.NodeCreds(k, e, nonce)
			req, err := fresh.CreateFetchNodeCredentialsRequest(harness.Ctx)
			if err != nil {
				return ns, "re-enroll-failed", err.Error()
			}
			ct, err := nodeenrollment.EncryptMessage(harness.Ctx, req, cur)
			if err != nil {
				return ns, "re-enroll-failed", err.Error()
			}
			resp, err := rotation.RotateNodeCredentials(harness.Ctx, ns.st, &types.RotateNodeCredentialsRequest{CertificatePublicKeyPkix: cur.CertificatePublicKeyPkix, EncryptedFetchNodeCredentialsRequest: ct})
			if err != nil {
				return ns, "re-enroll-failed", "RotateNodeCredentials: " + err.Error()
			}
			inner := new(types.FetchNodeCredentialsResponse)
			if err := nodeenrollment.DecryptMessage(harness.Ctx, resp.EncryptedFetchNodeCredentialsResponse, cur, inner); err != nil {
				return ns, "re-enroll-failed", err.Error()
			}
			nd := harness.NewMemStore()
			if _, err := fresh.HandleFetchNodeCredentialsResponse(harness.Ctx, nd, inner); err != nil {
				return ns, "re-enroll-failed", err.Error()
			}
			ns.nd = nd
			r.Branch("re-enrolled")
		}
		ns.enrolled, ns.sinceEnroll, ns.enrolledNow = true, 0, true
	}
	return ns, "", ""
}

func (w *world) explore(c *engine.Ctx, r *engine.Report) {
	horizon := 2 * w.cfg.span()
	if c.Thorough() {
		horizon = 5 * w.cfg.span()
		w.dialEverywhere = true
	}
	r.Extra[fmt.Sprintf("horizon_ticks[%s]", w.cfg)] = float64(horizon)
	b := &engine.BFS[*state]{
		Init: []*state{w.initial()}, Key: w.keyOf, Ctx: c, Report: r,
		Expand: func(s *state, path []string, emit func(string, *state)) {
			mayTick := !(s.sinceRotate+1 > w.cfg.R || (s.enrolled && s.sinceEnroll+1 > w.cfg.E))
			r.Eval(1)
			if sig, msg := w.check(s, mayTick, r); sig != "" {
				r.Violate(sig, fmt.Sprintf("[%s] history %v: %s", w.cfg, path, msg), replayData{w.cfg, path, c.Seed})
				return
			}
			for _, l := range []string{"rotate", "rotate-fault-1", "rotate-fault-2", "rotate-fault-3", "enroll", "tick"} {
				if l == "tick" && s.ticks >= horizon {
					continue
				}
				ns, sig, msg := w.apply(s, l, r)
				if ns == nil {
					continue
				}
				full := append(append([]string{}, path...), l)
				if sig != "" {
					r.Violate(sig, fmt.Sprintf("[%s] history %v: %s", w.cfg, compress(full), msg), replayData{w.cfg, full, c.Seed})
					continue
				}
				if len(path) == 12 && l == "rotate" {
					r.Sample(map[string]any{"config": w.cfg.String(), "history": compress(full), "state": w.keyOf(ns)})
				}
				emit(l, ns)
			}
		},
	}
	b.Run()
	r.Nontrivial(r.States)
}

func compress(p []string) string {
	var b strings.Builder
	for _, l := range p {
		b.WriteByte(l[0])
	}
	return b.String() + " (t=tick r=rotate e=enroll)"
}

func run(c *engine.Ctx, r *engine.Report) {
	r.Need("dial-ok", "critical-instant-ok", "rotate:no-op", "rotate:promote", "rotate:with-storage-fault", "re-enrolled")
	for i, cfg := range configs(c.Thorough()) {
		if !c.Mine(i) {
			continue
		}
		(&world{cfg: cfg, seed: c.Seed}).explore(c, r)
	}
	vclock.Reset()
}

func replay(c *engine.Ctx, raw json.RawMessage) (string, bool) {
	var rd replayData
	if err := json.Unmarshal(raw, &rd); err != nil {
		return err.Error(), false
	}
	w := &world{cfg: rd.Config, seed: rd.Seed}
	defer vclock.Reset()
	s := w.initial()
	r := engine.NewReport()
	var out strings.Builder
	for _, l := range rd.Path {
		ns, sig, msg := w.apply(s, l, r)
		if sig != "" {
			fmt.Fprintf(&out, "%s at {%s}: VIOLATION %s: %s\n", l, w.keyOf(s), sig, msg)
			return out.String(), true
		}
		if ns != nil {
			s = ns
		}
	}
	mayTick := !(s.sinceRotate+1 > w.cfg.R || (s.enrolled && s.sinceEnroll+1 > w.cfg.E))
	if sig, msg := w.check(s, mayTick, r); sig != "" {
		fmt.Fprintf(&out, "after %s at {%s}: VIOLATION %s: %s\n", compress(rd.Path), w.keyOf(s), sig, msg)
		return out.String(), true
	}
	return fmt.Sprintf("history %s: no violation; final state {%s}", compress(rd.Path), w.keyOf(s)), false
}

var _ = registration.AuthorizeNode

func init() {
	engine.Register(&engine.CheckDef{
		ID:    "C09",
		Level: "model_checking",
		Rule: "BFS over {tick one grid unit (1h), rotate roots, a rotation call whose first / second / third storage operation fails, node (re-)enrolls (first by enrollment, then by RotateNodeCredentials)} with a monitor that disables tick whenever the server's interval R or the node's interval E = floor((span-R)/2 - |not-before skew|) would be exceeded, for (lifetime, not-before, not-after) in {(8,0,0),(8,-1,1),(16,-2,0)} units x R in {1,2,3,span-1} (and span-2 for the first; thorough: 5, span/2, span-2 for all; where E < 1 only the rotation clause is explored), up to a horizon of 2 (thorough 5) spans; at every reachable grid state reached by time passing (thorough: at every state): a real Dial through the real listener under the virtual clock, and at every state the real ClientConfigs/ServerConfig validity filters now and at every end-point of a root or chain window +-1ns inside the next grid interval; every rotation must be a no-op or a promotion of a valid next; " +
			"distinct_nontrivial = canonical states (validity instants relative to now, chain-to-root membership, cadence counters)",
		Assumptions: []string{"the space is bounded by the horizon, not by a fixpoint (half-life shifts create new relative offsets)", "'randomized with jitter' and 'several orders of magnitude' are sampling and not claimed; the code is scale-free except for nanosecond truncation of /2 and the one-second granularity of certificate times, which is why the grid unit is one hour"},
		Shards:      func(c *engine.Ctx) int { return 16 },
		Run:         run,
		Replay:      replay,
	})
}
