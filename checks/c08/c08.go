// Package c08: root rotation always leaves two well-formed, overlapping roots
// and follows the documented decision table (E4 over all order types of the
// stored validity instants x configurations; E1 over rotation histories in
// virtual time).
package c08

import (
	"bytes"
	"context"
	"crypto/ed25519"
	"crypto/x509"
	"crypto/x509/pkix"
	"encoding/json"
	"errors"
	"fmt"
	"math"
	"math/big"
	"os"
	"path/filepath"
	"sort"
	"strings"
	"time"

	"github.com/hashicorp/nodeenrollment"
	"github.com/hashicorp/nodeenrollment/rotation"
	"github.com/hashicorp/nodeenrollment/storage/file"
	"github.com/hashicorp/nodeenrollment/storage/inmem"
	"github.com/hashicorp/nodeenrollment/types"
	vclock "github.com/hashicorp/nodeenrollment/zz_verif/vclock"
	"google.golang.org/protobuf/proto"
	"google.golang.org/protobuf/types/known/timestamppb"
	"verif/engine"
	"verif/harness"
)

type config struct {
	Life   time.Duration `json:"life"`
	NB     time.Duration `json:"nb"`
	NA     time.Duration `json:"na"`
	Reinit bool          `json:"reinit"`
	Clock  string        `json:"clock"` // frozen | ticking
	Store  string        `json:"store"` // inmem | file
}

func (c config) String() string {
	return fmt.Sprintf("life=%v nb=%v na=%v reinit=%v clock=%s store=%s", c.Life, c.NB, c.NA, c.Reinit, c.Clock, c.Store)
}

func (c config) opts() []nodeenrollment.Option {
	return []nodeenrollment.Option{
		nodeenrollment.WithCertificateLifetime(c.Life), nodeenrollment.WithNotBeforeClockSkew(c.NB), nodeenrollment.WithNotAfterClockSkew(c.NA),
		nodeenrollment.WithReinitializeRoots(c.Reinit),
	}
}

// tol is the slack allowed on minted instants: zero under the frozen clock,
// a few clock reads under the ticking clock.
func (c config) tol() time.Duration {
	if c.Clock == "ticking" {
		return 16 * time.Nanosecond
	}
	return 0
}

var craftKeys = map[string]ed25519.PrivateKey{}

func craftKey(name string) ed25519.PrivateKey {
	if k, ok := craftKeys[name]; ok {
		return k
	}
	_, k, _ := ed25519.GenerateKey(harness.DetRand("c08-root-" + name))
	craftKeys[name] = k
	return k
}

// craftRoot builds a really self-signed root with the given window.
func craftRoot(id, keyName string, nb, na time.Time) *types.RootCertificate {
	priv := craftKey(keyName)
	pub := priv.Public().(ed25519.PublicKey)
	pkixb, keyId, err := nodeenrollment.SubjectKeyInfoAndKeyIdFromPubKey(pub)
	if err != nil {
		panic(err)
	}
	tmpl := &x509.Certificate{
		AuthorityKeyId: pkixb, SubjectKeyId: pkixb, Subject: pkix.Name{CommonName: keyId}, DNSNames: []string{keyId},
		KeyUsage:     x509.KeyUsageDigitalSignature | x509.KeyUsageKeyEncipherment | x509.KeyUsageKeyAgreement | x509.KeyUsageCertSign,
		SerialNumber: big.NewInt(7), NotBefore: nb, NotAfter: na, BasicConstraintsValid: true, IsCA: true,
	}
	der, err := x509.CreateCertificate(harness.DetRand("c08"), tmpl, tmpl, pub, priv)
	if err != nil {
		panic(err)
	}
	pkcs8, _ := x509.MarshalPKCS8PrivateKey(priv)
	return &types.RootCertificate{Id: id, PublicKeyPkix: pkixb, PrivateKeyPkcs8: pkcs8, PrivateKeyType: types.KEYTYPE_ED25519, CertificateDer: der,
		NotBefore: timestamppb.New(nb), NotAfter: timestamppb.New(na)}
}

type window struct{ nb, na time.Time }

func win(r *types.RootCertificate) window { return window{r.NotBefore.AsTime(), r.NotAfter.AsTime()} }

// allowed computes the set of actions the property's decision table permits
// for the stored windows at `now`. A comparison that is an exact tie may be
// read either way (the property does not speak about ties).
func allowed(cur, next window, now time.Time) map[string]bool {
	out := map[string]bool{}
	// ties: each of the four instants equal to now may count as before or after
	inst := []time.Time{cur.nb, cur.na, next.nb, next.na}
	var ties []int
	for i, t := range inst {
		if t.Equal(now) {
			ties = append(ties, i)
		}
	}
	for mask := 0; mask < 1<<len(ties); mask++ {
		// rel[i] = -1 instant before now, +1 after
		rel := make([]int, 4)
		for i, t := range inst {
			switch {
			case t.Before(now):
				rel[i] = -1
			case t.After(now):
				rel[i] = 1
			}
		}
		for j, i := range ties {
			if mask&(1<<j) != 0 {
				rel[i] = 1
			} else {
				rel[i] = -1
			}
		}
		curNotYet := rel[0] > 0
		curExpired := rel[1] < 0
		curValid := !curNotYet && !curExpired
		nextNotYet := rel[2] > 0
		nextExpired := rel[3] < 0
		nextValid := !nextNotYet && !nextExpired
		switch {
		case curNotYet:
			out["startover"] = true
		case curValid && nextNotYet && !nextExpired:
			out["noop"] = true
		case curValid && nextValid:
			out["promote"] = true
		case curValid && nextExpired:
			out["remint"] = true
		case curExpired && nextValid:
			out["promote"] = true
		case curExpired:
			out["startover"] = true
		}
	}
	return out
}

type store struct {
	st      nodeenrollment.Storage
	cleanup func()
}

var dirSeq int

func newStore(kind string) store {
	switch kind {
	case "file":
		dirSeq++
		dir := filepath.Join(engine.VerifRoot(), ".work", "c08", fmt.Sprintf("%d-%d", os.Getpid(), dirSeq))
		s, err := file.New(harness.Ctx, file.WithBaseDirectory(dir))
		if err != nil {
			panic(err)
		}
		return store{s, func() { os.RemoveAll(dir) }}
	}
	s, _ := inmem.New(harness.Ctx)
	return store{s, func() {}}
}

func setClock(cfg config, now time.Time) {
	if cfg.Clock == "ticking" {
		vclock.Tick(now)
	} else {
		vclock.Freeze(now)
	}
}

func near(a, b time.Time, tol time.Duration) bool {
	d := a.Sub(b)
	if d < 0 {
		d = -d
	}
	return d <= tol
}

// checkRoot verifies that r is a well-formed self-signed CA whose DER window
// matches the proto window (to the second, DER's granularity).
func checkRoot(r *types.RootCertificate, wantId string) string {
	if r == nil {
		return "root missing"
	}
	if r.Id != wantId {
		return fmt.Sprintf("root labelled %q, want %q", r.Id, wantId)
	}
	cert, err := x509.ParseCertificate(r.CertificateDer)
	if err != nil {
		return "certificate does not parse: " + err.Error()
	}
	if !cert.IsCA || !cert.BasicConstraintsValid || cert.KeyUsage&x509.KeyUsageCertSign == 0 {
		return "root is not a CA certificate with cert-sign usage"
	}
	if err := cert.CheckSignatureFrom(cert); err != nil {
		return "root is not self-signed: " + err.Error()
	}
	pub, err := x509.MarshalPKIXPublicKey(cert.PublicKey)
	if err != nil || !bytes.Equal(pub, r.PublicKeyPkix) {
		return "public key of the certificate differs from the recorded one"
	}
	k, err := x509.ParsePKCS8PrivateKey(r.PrivateKeyPkcs8)
	if err != nil {
		return "private key does not parse"
	}
	if !bytes.Equal(k.(ed25519.PrivateKey).Public().(ed25519.PublicKey), cert.PublicKey.(ed25519.PublicKey)) {
		return "private key does not belong to the certificate"
	}
	if !cert.NotBefore.Equal(r.NotBefore.AsTime().Truncate(time.Second)) || !cert.NotAfter.Equal(r.NotAfter.AsTime().Truncate(time.Second)) {
		return fmt.Sprintf("recorded window %v..%v differs from the certificate's %v..%v", r.NotBefore.AsTime(), r.NotAfter.AsTime(), cert.NotBefore, cert.NotAfter)
	}
	return ""
}

// judge runs one rotation call on st (holding pre or nothing) at now and
// checks decision and post-conditions. It returns the action taken.
func judge(cfg config, st nodeenrollment.Storage, pre *types.RootCertificates, now time.Time) (action, sig, msg string) {
	setClock(cfg, now)
	ret, err := rotation.RotateRootCertificates(harness.Ctx, st, cfg.opts()...)
	after := vclock.Peek() // under the ticking clock a few reads later than now
	setClock(cfg, now)
	if err != nil {
		if pre == nil && cfg.Reinit && cfg.Store == "file" {
			return "error-allowed", "", "" // removing roots that do not exist fails on the file back end
		}
		return "", "error", "rotation failed: " + err.Error()
	}
	loaded, lerr := types.LoadRootCertificates(harness.Ctx, st)
	if lerr != nil {
		return "", "not-persisted", "rotation reported success but the roots cannot be loaded: " + lerr.Error()
	}
	if !proto.Equal(ret, loaded) {
		return "", "returned-differs-from-stored", "the returned roots differ from the stored ones"
	}
	if m := checkRoot(ret.Current, "current"); m != "" {
		return "", "malformed-current", "current: " + m
	}
	if m := checkRoot(ret.Next, "next"); m != "" {
		return "", "malformed-next", "next: " + m
	}
	same := func(a, b *types.RootCertificate) bool {
		return a != nil && b != nil && bytes.Equal(a.PublicKeyPkix, b.PublicKeyPkix)
	}
	switch {
	case pre != nil && proto.Equal(pre, ret):
		action = "noop"
	case pre != nil && same(ret.Current, pre.Next) && !same(ret.Next, pre.Next) && !same(ret.Next, pre.Current):
		action = "promote"
	case pre != nil && same(ret.Current, pre.Current) && !same(ret.Next, pre.Next) && !same(ret.Next, pre.Current):
		action = "remint"
	case pre == nil || (!same(ret.Current, pre.Current) && !same(ret.Current, pre.Next) && !same(ret.Next, pre.Current) && !same(ret.Next, pre.Next)):
		action = "startover"
	default:
		return "", "unrecognised-change", "the stored roots changed in a way that is none of no-op / promote / re-mint next / start over"
	}
	// decision
	var allow map[string]bool
	switch {
	case cfg.Reinit || pre == nil:
		allow = map[string]bool{"startover": true}
	default:
		allow = allowed(win(pre.Current), win(pre.Next), now)
	}
	if !allow[action] {
		var ks []string
		for k := range allow {
			ks = append(ks, k)
		}
		sort.Strings(ks)
		return action, "decision:" + action + "-instead-of-" + strings.Join(ks, "|"), fmt.Sprintf("rotation did %q where the property's table allows %v", action, ks)
	}
	// post-conditions
	tol := cfg.tol()
	cw, nw := win(ret.Current), win(ret.Next)
	if cw.nb.After(after) || cw.na.Before(now) {
		if action != "noop" { // a no-op keeps whatever was stored
			return action, "current-not-valid-now", fmt.Sprintf("after %s the current root %v..%v is not valid at now=%v", action, cw.nb, cw.na, now)
		}
	}
	freshNB, freshNA := now.Add(cfg.NB), now.Add(cfg.Life).Add(cfg.NA)
	var shiftBase time.Time
	switch action {
	case "promote":
		if !proto.Equal(withId(pre.Next, "current"), ret.Current) {
			return action, "promoted-root-altered", "the promoted root is not byte-identical to the previous next"
		}
		shiftBase = pre.Next.NotAfter.AsTime()
	case "remint":
		if !proto.Equal(pre.Current, ret.Current) {
			return action, "current-altered-by-remint", "re-minting next altered the current root"
		}
		shiftBase = pre.Current.NotAfter.AsTime()
	case "startover":
		if !near(cw.nb, freshNB, tol) || !near(cw.na, freshNA, tol) {
			return action, "fresh-current-window", fmt.Sprintf("new current window %v..%v, want %v..%v", cw.nb, cw.na, freshNB, freshNA)
		}
		shiftBase = ret.Current.NotAfter.AsTime()
	}
	if action != "noop" {
		shift := shiftBase.Sub(now) / 2
		wantNB, wantNA := freshNB.Add(shift), freshNA.Add(shift)
		if !near(nw.nb, wantNB, tol) || !near(nw.na, wantNA, tol) {
			return action, "next-window:" + action, fmt.Sprintf("new next window %v..%v, want %v..%v (fresh window shifted by half of the remaining life %v of the current root)", nw.nb.Sub(now), nw.na.Sub(now), wantNB.Sub(now), wantNA.Sub(now), shiftBase.Sub(now))
		}
		if nw.nb.After(cw.na) {
			return action, "next-begins-after-current-ends", fmt.Sprintf("after %s next begins at now+%v, after current ends at now+%v", action, nw.nb.Sub(now), cw.na.Sub(now))
		}
		if action == "startover" && cfg.Life+cfg.NA >= 2*time.Nanosecond {
			if !nw.nb.After(cw.nb) || !nw.na.After(cw.na) {
				return action, "fresh-next-not-later", "from scratch, next does not begin and end later than current"
			}
		}
	}
	return action, "", ""
}

func withId(r *types.RootCertificate, id string) *types.RootCertificate {
	c := proto.Clone(r).(*types.RootCertificate)
	c.Id = id
	return c
}

// ---------------------------------------------------------------------------
// A1: every order type

type orderCase struct {
	Part   string        `json:"part"`
	Ranks  [5]int        `json:"ranks"`  // cNB cNA nNB nNA now
	Record string        `json:"record"` // both | none
	Config config        `json:"config"`
	Unit   time.Duration `json:"unit"` // spacing of the ranks: 1h or 1ns
}

func orderTypes() [][5]int {
	var out [][5]int
	var r [5]int
	var rec func(i int)
	rec = func(i int) {
		if i == 5 {
			// surjective onto 0..max
			seen := map[int]bool{}
			mx := 0
			for _, v := range r {
				seen[v] = true
				if v > mx {
					mx = v
				}
			}
			if len(seen) != mx+1 {
				return
			}
			out = append(out, r)
			return
		}
		for v := 0; v < 5; v++ {
			r[i] = v
			rec(i + 1)
		}
	}
	rec(0)
	return out
}

var base = harness.T0

func runOrder(k orderCase, r *engine.Report) (string, string) {
	s := newStore(k.Config.Store)
	defer s.cleanup()
	unit := k.Unit
	if unit == 0 {
		unit = time.Hour
	}
	at := func(rank int) time.Time { return base.Add(time.Duration(rank) * unit) }
	var pre *types.RootCertificates
	if k.Record == "both" {
		pre = &types.RootCertificates{Id: nodeenrollment.RootsMessageId,
			Current: craftRoot("current", "cur", at(k.Ranks[0]), at(k.Ranks[1])),
			Next:    craftRoot("next", "next", at(k.Ranks[2]), at(k.Ranks[3]))}
		if err := pre.Store(harness.Ctx, s.st); err != nil {
			panic(err)
		}
	}
	action, sig, msg := judge(k.Config, s.st, pre, at(k.Ranks[4]))
	if sig != "" {
		return sig, fmt.Sprintf("[%s] stored windows as ranks cur=%d..%d next=%d..%d now=%d (%v apart): %s", k.Config, k.Ranks[0], k.Ranks[1], k.Ranks[2], k.Ranks[3], k.Ranks[4], unit, msg)
	}
	r.Branch("order:" + action)
	r.Outcome("order:" + action)
	// reinitialization requested by a caller that manages storage itself
	// (skip-storage): whatever is stored, both returned roots are new
	if pre != nil && k.Config.Store == "inmem" {
		inner, _ := inmem.New(harness.Ctx)
		if err := pre.Store(harness.Ctx, inner); err != nil {
			panic(err)
		}
		setClock(k.Config, at(k.Ranks[4]))
		o := append(k.Config.opts(), nodeenrollment.WithReinitializeRoots(true), nodeenrollment.WithSkipStorage(true))
		ret, err := rotation.RotateRootCertificates(harness.Ctx, inner, o...)
		same := func(a, b *types.RootCertificate) bool {
			return a != nil && b != nil && bytes.Equal(a.PublicKeyPkix, b.PublicKeyPkix)
		}
		switch {
		case err != nil:
			return "reinit-skip-storage:error", fmt.Sprintf("[%s] reinitialization with skip-storage failed: %v", k.Config, err)
		case ret == nil || ret.Current == nil || ret.Next == nil || same(ret.Current, pre.Current) || same(ret.Current, pre.Next) || same(ret.Next, pre.Current) || same(ret.Next, pre.Next):
			return "reinit-skip-storage:old-root-returned", fmt.Sprintf("[%s] stored windows as ranks cur=%d..%d next=%d..%d now=%d: reinitialization was requested (with skip-storage) and a previously stored root came back", k.Config, k.Ranks[0], k.Ranks[1], k.Ranks[2], k.Ranks[3], k.Ranks[4])
		}
		r.Branch("order:reinit-skip-storage")
		// the same call without reinitialization, once under skip-storage and
		// once with a storage wrapper: whatever it decides, the roots it returns
		// carry their slot's label
		for _, variant := range []string{"skip-storage", "storage-wrapper"} {
			st2, _ := inmem.New(harness.Ctx)
			o2 := k.Config.opts()
			if variant == "storage-wrapper" {
				o2 = append(o2, nodeenrollment.WithStorageWrapper(harness.Wrapper("c08-labels", 1)))
				if err := proto.Clone(pre).(*types.RootCertificates).Store(harness.Ctx, st2, o2...); err != nil {
					panic(err)
				}
			} else {
				o2 = append(o2, nodeenrollment.WithSkipStorage(true))
				if err := pre.Store(harness.Ctx, st2); err != nil {
					panic(err)
				}
			}
			setClock(k.Config, at(k.Ranks[4]))
			if ret, err := rotation.RotateRootCertificates(harness.Ctx, st2, o2...); err == nil && ret != nil && ret.Current != nil && ret.Next != nil {
				if ret.Current.Id != string(nodeenrollment.CurrentId) || ret.Next.Id != string(nodeenrollment.NextId) {
					return "labels:" + variant, fmt.Sprintf("[%s] stored windows as ranks cur=%d..%d next=%d..%d now=%d, call with %s: the returned roots are labelled current=%q next=%q", k.Config, k.Ranks[0], k.Ranks[1], k.Ranks[2], k.Ranks[3], k.Ranks[4], variant, ret.Current.Id, ret.Next.Id)
				}
			}
		}
	}
	// the same stored roots, but this call cannot read them: it may not take
	// "unreadable" for "missing" - it must fail and leave storage as it is
	if pre != nil && !k.Config.Reinit && k.Config.Store == "inmem" {
		for _, mode := range []string{"load-fails", "stored-wrapped-called-without-wrapper", "stored-wrapped-called-with-another-wrapper"} {
			if sig, msg := unreadable(k, pre, at(k.Ranks[4]), mode); sig != "" {
				return sig, fmt.Sprintf("[%s] stored windows as ranks cur=%d..%d next=%d..%d now=%d (%v apart), %s: %s", k.Config, k.Ranks[0], k.Ranks[1], k.Ranks[2], k.Ranks[3], k.Ranks[4], unit, mode, msg)
			}
		}
		r.Branch("order:unreadable-roots-refused")
	}
	return "", ""
}

// failingLoad fails every Load of the roots with an error that is not "not found".
type failingLoad struct{ nodeenrollment.Storage }

func (f failingLoad) Load(ctx context.Context, m nodeenrollment.MessageWithId) error {
	if _, ok := m.(*types.RootCertificates); ok {
		return errors.New("injected: storage unreachable")
	}
	return f.Storage.Load(ctx, m)
}

func unreadable(k orderCase, pre *types.RootCertificates, now time.Time, mode string) (string, string) {
	inner, _ := inmem.New(harness.Ctx)
	var st nodeenrollment.Storage = inner
	opts := k.Config.opts()
	switch mode {
	case "load-fails":
		if err := pre.Store(harness.Ctx, inner); err != nil {
			panic(err)
		}
		st = failingLoad{inner}
	default:
		if err := proto.Clone(pre).(*types.RootCertificates).Store(harness.Ctx, inner, nodeenrollment.WithStorageWrapper(harness.Wrapper("c08-roots", 1))); err != nil {
			panic(err)
		}
		if mode == "stored-wrapped-called-with-another-wrapper" {
			opts = append(opts, nodeenrollment.WithStorageWrapper(harness.SafeWrapper{Wrapper: harness.Wrapper("c08-other", 1)}))
		}
	}
	before := &types.RootCertificates{Id: nodeenrollment.RootsMessageId}
	if err := inner.Load(harness.Ctx, before); err != nil {
		panic(err)
	}
	setClock(k.Config, now)
	_, err := rotation.RotateRootCertificates(harness.Ctx, st, opts...)
	after := &types.RootCertificates{Id: nodeenrollment.RootsMessageId}
	lerr := inner.Load(harness.Ctx, after)
	switch {
	case lerr != nil || !proto.Equal(before, after):
		return "unreadable-roots-replaced:" + mode, fmt.Sprintf("the call could not read the stored roots, yet storage was changed (call error: %v)", err)
	case err == nil:
		return "unreadable-roots-no-error:" + mode, "the call could not read the stored roots and reported success"
	}
	return "", ""
}

func configs(c *engine.Ctx) []config {
	var out []config
	lifes := []time.Duration{time.Hour, nodeenrollment.DefaultCertificateLifetime, time.Nanosecond}
	nbs := []time.Duration{0, -5 * time.Minute, -time.Hour}
	nas := []time.Duration{0, 5 * time.Minute, time.Hour}
	for _, l := range lifes {
		for _, nb := range nbs {
			for _, na := range nas {
				if l == time.Nanosecond && (nb == 0 || na == 0) {
					continue // the documented use of a 1ns lifetime is "only use skew"
				}
				for _, re := range []bool{false, true} {
					for _, clk := range []string{"frozen", "ticking"} {
						out = append(out, config{l, nb, na, re, clk, "inmem"})
					}
				}
			}
		}
	}
	out = append(out, config{time.Hour, -5 * time.Minute, 5 * time.Minute, false, "frozen", "file"}, config{time.Hour, 0, 0, true, "frozen", "file"})
	if !c.Thorough() {
		// quick: three lifetimes' worth of representative configurations
		var q []config
		for i, cf := range out {
			if i%7 == 0 || cf.Store == "file" {
				q = append(q, cf)
			}
		}
		return q
	}
	return out
}

// ---------------------------------------------------------------------------
// A2: histories

type hstate struct {
	roots *types.RootCertificates // nil = empty storage
	now   time.Time
}

type histReplay struct {
	Part   string   `json:"part"`
	Config config   `json:"config"`
	Path   []string `json:"path"`
}

func (h hstate) key() string {
	if h.roots == nil {
		return "empty"
	}
	c, n := win(h.roots.Current), win(h.roots.Next)
	return fmt.Sprintf("cur=%v..%v next=%v..%v", c.nb.Sub(h.now), c.na.Sub(h.now), n.nb.Sub(h.now), n.na.Sub(h.now))
}

func applyHist(cfg config, h hstate, label string) (hstate, string, string, string) {
	span := cfg.Life + cfg.NA - cfg.NB
	switch {
	case strings.HasPrefix(label, "adv:"):
		var num, den int
		fmt.Sscanf(label, "adv:%d/%d", &num, &den)
		return hstate{h.roots, h.now.Add(span * time.Duration(num) / time.Duration(den))}, "", "", "advance"
	}
	c2 := cfg
	c2.Reinit = label == "rotate-reinit"
	s := newStore("inmem")
	if h.roots != nil {
		if err := proto.Clone(h.roots).(*types.RootCertificates).Store(harness.Ctx, s.st); err != nil {
			panic(err)
		}
	}
	action, sig, msg := judge(c2, s.st, h.roots, h.now)
	if sig != "" {
		return h, sig, msg, ""
	}
	loaded, err := types.LoadRootCertificates(harness.Ctx, s.st)
	if err != nil {
		panic(err)
	}
	return hstate{loaded, h.now}, "", "", action
}

func runHistories(c *engine.Ctx, r *engine.Report, cfg config) {
	depth := 5
	if c.Thorough() {
		depth = 7
	}
	labels := []string{"rotate", "rotate-reinit", "adv:1/4", "adv:1/2", "adv:3/4", "adv:1/1", "adv:2/1"}
	b := &engine.BFS[hstate]{
		Init:     []hstate{{nil, base}},
		Key:      func(h hstate) string { return h.key() },
		MaxDepth: depth,
		Ctx:      c,
		Report:   r,
		Expand: func(h hstate, path []string, emit func(string, hstate)) {
			for _, l := range labels {
				if h.roots == nil && strings.HasPrefix(l, "adv") {
					continue
				}
				nh, sig, msg, action := applyHist(cfg, h, l)
				r.Eval(1)
				full := append(append([]string{}, path...), l)
				if sig != "" {
					r.Violate("history:"+sig, fmt.Sprintf("[%s] history %v from state {%s}: %s", cfg, full, h.key(), msg), histReplay{"history", cfg, full})
					continue
				}
				if action != "advance" {
					r.Branch("history:" + action)
				}
				if len(path) == 3 && l == "rotate" {
					r.Sample(map[string]any{"config": cfg.String(), "history": full, "action": action, "state_after": nh.key()})
				}
				emit(l, nh)
			}
		},
	}
	b.Run()
}

func run(c *engine.Ctx, r *engine.Report) {
	r.Need("order:noop", "order:promote", "order:remint", "order:startover", "history:noop", "history:promote", "history:startover", "order:unreadable-roots-refused", "order:reinit-skip-storage")
	cfgs := configs(c)
	ots := orderTypes()
	r.Extra["order_types_total"] = float64(len(ots))
	wellFormed := 0
	for _, ot := range ots {
		if ot[0] < ot[1] && ot[2] < ot[3] {
			wellFormed++
		}
	}
	r.Extra["order_types_well_formed"] = float64(wellFormed)
	i := 0
	for _, cfg := range cfgs {
		for _, ot := range ots {
			if !(ot[0] < ot[1] && ot[2] < ot[3]) {
				continue // windows the code can never have written (lifetime is positive)
			}
			i++
			if !c.Mine(i) {
				continue
			}
			for _, unit := range []time.Duration{time.Hour, time.Nanosecond} {
				k := orderCase{"order", ot, "both", cfg, unit}
				r.Eval(1)
				if sig, msg := runOrder(k, r); sig != "" {
					r.Violate("order:"+sig, msg, k)
				} else {
					r.Nontrivial(1)
					if i%2003 == 1 {
						r.Sample(k)
					}
				}
			}
		}
		i++
		if c.Mine(i) {
			k := orderCase{"order", [5]int{}, "none", cfg, time.Hour}
			r.Eval(1)
			if sig, msg := runOrder(k, r); sig != "" {
				r.Violate("order:"+sig, msg, k)
			}
		}
	}
	// lifetimes at the edge of the duration encoding (bootstrap only: the roots
	// a successful call returns are valid now and well-formed)
	if c.Shard == 0 {
		for _, e := range [][2]time.Duration{{math.MaxInt64, 5 * time.Minute}, {math.MaxInt64 - time.Hour, 2 * time.Hour}, {math.MaxInt64 - 5*time.Minute, 5 * time.Minute}, {math.MaxInt64 / 2, math.MaxInt64 / 2}} {
			st, _ := inmem.New(harness.Ctx)
			now := base
			vclock.Freeze(now)
			ret, err := rotation.RotateRootCertificates(harness.Ctx, st, nodeenrollment.WithCertificateLifetime(e[0]), nodeenrollment.WithNotBeforeClockSkew(0), nodeenrollment.WithNotAfterClockSkew(e[1]))
			r.Eval(1)
			if err != nil {
				r.Branch("extreme-lifetime:refused")
				continue // refusing such a configuration is fine
			}
			for _, x := range []*types.RootCertificate{ret.Current, ret.Next} {
				if x == nil || !x.NotBefore.AsTime().Before(x.NotAfter.AsTime()) {
					r.Violate("extreme-lifetime:malformed-window", fmt.Sprintf("lifetime %v + not-after skew %v: a returned root is valid %v..%v", e[0], e[1], x.GetNotBefore().AsTime(), x.GetNotAfter().AsTime()), nil)
				}
			}
			if cw := win(ret.Current); cw.nb.After(now) || cw.na.Before(now) {
				r.Violate("extreme-lifetime:current-not-valid-now", fmt.Sprintf("lifetime %v + not-after skew %v: the call succeeded and returned a current root valid %v..%v, which does not contain now=%v", e[0], e[1], cw.nb, cw.na, now), nil)
			}
			r.Branch("extreme-lifetime:bootstrapped")
		}
	}
	// histories: frozen-clock configurations, one per shard
	var hc []config
	for _, cfg := range cfgs {
		if cfg.Clock == "frozen" && cfg.Store == "inmem" && !cfg.Reinit {
			hc = append(hc, cfg)
		}
	}
	for j, cfg := range hc {
		if c.Mine(j) {
			runHistories(c, r, cfg)
		}
	}
	vclock.Reset()
}

func replay(c *engine.Ctx, raw json.RawMessage) (string, bool) {
	var probe struct {
		Part string `json:"part"`
	}
	json.Unmarshal(raw, &probe)
	defer vclock.Reset()
	if probe.Part == "order" {
		var k orderCase
		json.Unmarshal(raw, &k)
		sig, msg := runOrder(k, engine.NewReport())
		if sig == "" {
			return fmt.Sprintf("case %+v holds", k), false
		}
		return sig + ": " + msg, true
	}
	var hr histReplay
	json.Unmarshal(raw, &hr)
	h := hstate{nil, base}
	var out strings.Builder
	for _, l := range hr.Path {
		fmt.Fprintf(&out, "%s on {%s}\n", l, h.key())
		nh, sig, msg, action := applyHist(hr.Config, h, l)
		if sig != "" {
			fmt.Fprintf(&out, "  VIOLATION %s: %s\n", sig, msg)
			return out.String(), true
		}
		fmt.Fprintf(&out, "  -> %s\n", action)
		h = nh
	}
	return out.String() + "no violation", false
}

func init() {
	engine.Register(&engine.CheckDef{
		ID:    "C08",
		Level: "model_checking",
		Rule: "A1: every weak ordering of {current.NotBefore, current.NotAfter, next.NotBefore, next.NotAfter, now} with well-formed windows (NotBefore < NotAfter; crafted, really self-signed roots; instants 1h apart and 1ns apart) plus empty storage, x lifetime {1ns,1h,14d} x not-before skew {0,-5m,-1h} x not-after skew {0,5m,1h} x reinitialize x clock {frozen, ticking} on inmem (+2 file configurations); A2: BFS over {rotate, rotate+reinit, advance by 1/4,1/2,3/4,1,2 spans} from empty storage (quick depth 5, thorough 7) per frozen-clock configuration; every A1 case again with the stored roots unreadable, with reinitialization under skip-storage, and with the labels of what a wrapper / skip-storage call returns; bootstrap calls with lifetime + not-after skew at and beyond the int64 limit of the duration type; oracle = the property's decision table (ties may go either way) and exact minted windows; " +
			"states/transitions are those of A2; distinct_nontrivial counts A1 cases (distinct by construction)",
		Assumptions: []string{"exact ties between now and a stored instant may be decided either way (the property is silent)", "windows with NotBefore >= NotAfter are not enumerated: the code can never have stored them", "a 1ns lifetime is used only with non-zero skews (below 2ns of lifetime+skew the half-life shift truncates to zero)"},
		Shards:      func(c *engine.Ctx) int { return 16 },
		Run:         run,
		Replay:      replay,
	})
}
