// Package c13: storage faults fail closed and success implies durability
// (E3: every position of one (thorough: two) failing storage operation(s) in
// every flow, for three error kinds, against the real code over the
// fault-injecting harness store).
package c13

import (
	"bytes"
	"context"
	"encoding/json"
	"errors"
	"fmt"
	"sort"
	"strings"

	wrapping "github.com/hashicorp/go-kms-wrapping/v2"
	"github.com/hashicorp/nodeenrollment"
	"github.com/hashicorp/nodeenrollment/protocol"
	"github.com/hashicorp/nodeenrollment/registration"
	"github.com/hashicorp/nodeenrollment/rotation"
	nodetls "github.com/hashicorp/nodeenrollment/tls"
	"github.com/hashicorp/nodeenrollment/types"
	vclock "github.com/hashicorp/nodeenrollment/zz_verif/vclock"
	"google.golang.org/protobuf/proto"
	"verif/engine"
	"verif/harness"
)

var kinds = map[string]error{
	"generic":   errors.New("injected storage failure"),
	"notfound":  fmt.Errorf("injected: %w", nodeenrollment.ErrNotFound),
	"cancelled": fmt.Errorf("injected: %w", context.Canceled),
}
var kindNames = []string{"generic", "notfound", "cancelled"}

type world struct {
	seed    int64
	k       map[string]*harness.CertKey
	e       map[string]*harness.EncKey
	rw      wrapping.Wrapper
	tok     *harness.Token
	base    *harness.MemStore // roots + bystander B + registered node A (node id "X") + token + re-wrapper R
	bSnap   []byte
	rPub    []byte
	aPub    []byte
	nodeSt  *harness.MemStore // node-side store with fresh credentials of K1
	lastErr error
}

func newWorld(seed int64) *world {
	vclock.Freeze(harness.T0)
	w := &world{seed: seed, k: map[string]*harness.CertKey{}, e: map[string]*harness.EncKey{}, rw: harness.Wrapper("registration", seed)}
	for _, n := range []string{"K1", "KA", "KB", "KR", "KN"} {
		w.k[n] = harness.NewCertKey(n, seed)
		w.e[n] = harness.NewEncKey("E-"+n, seed)
	}
	w.base = harness.NewMemStore()
	harness.InitRoots(w.base)
	auth := func(name, nodeId string) *types.NodeInformation {
		req := harness.SignedRequest(harness.Info(w.k[name], w.e[name], harness.Bytes("nonce-"+name, 32)), w.k[name])
		n, err := registration.AuthorizeNode(harness.Ctx, w.base, req, nodeenrollment.WithState(harness.Struct(map[string]any{"rec": name})))
		if err != nil {
			panic(err)
		}
		if nodeId != "" {
			n.NodeId = nodeId
			w.base.PutNodeInfo(n)
		}
		return n
	}
	auth("KB", "")
	w.aPub = harness.ServerPub(auth("KA", "X"))
	w.rPub = harness.ServerPub(auth("KR", ""))
	w.bSnap, _ = w.base.Raw("nodeinfo", w.k["KB"].KeyId)
	var err error
	w.tok, err = harness.CreateToken(w.base, "T1", seed)
	if err != nil {
		panic(err)
	}
	return w
}

// outcome of one run of a flow
type outcome struct {
	Err     error
	Handed  bool   // credentials / token / certificates / roots were handed out
	Durable string // "" or why the successful result is not reflected in storage
}

type flow struct {
	Name string
	// prep adjusts a clone of the base store (and may create a node store)
	Prep func(w *world, st *harness.MemStore)
	Run  func(w *world, st *harness.MemStore) outcome
}

func (w *world) nodeSide(name string, srvPub []byte) *types.NodeCredentials {
	c := harness.NodeCreds(w.k[name], w.e[name], nil)
	c.ServerEncryptionPublicKeyBytes, c.ServerEncryptionPublicKeyType = srvPub, types.KEYTYPE_X25519
	return c
}

func (w *world) recordMatches(st *harness.MemStore, name string, nonce []byte) string {
	n := st.NodeInfo(w.k[name].KeyId)
	switch {
	case n == nil:
		return "no node record for the key in storage"
	case !bytes.Equal(n.RegistrationNonce, nonce) || !bytes.Equal(n.EncryptionPublicKeyBytes, w.e[name].Pub):
		return "stored node record differs from what the response was built from"
	}
	return ""
}

func fetchOutcome(w *world, st *harness.MemStore, name string, nonce []byte, resp *types.FetchNodeCredentialsResponse, err error) outcome {
	o := outcome{Err: err, Handed: harness.HasCreds(resp)}
	if err == nil && o.Handed {
		o.Durable = w.recordMatches(st, name, nonce)
		if o.Durable == "" {
			n := st.NodeInfo(w.k[name].KeyId)
			if !bytes.Equal(harness.ServerPub(n), resp.ServerEncryptionPublicKeyBytes) {
				o.Durable = "response carries a server key that is not the stored one"
			} else if _, derr := harness.OpenResponse(resp, w.k[name], w.e[name]); derr != nil {
				o.Durable = "issued credentials cannot be opened by the node: " + derr.Error()
			}
		}
	}
	return o
}

func flows() []flow {
	n1 := harness.Bytes("nonce-K1", 32)
	return []flow{
		{"authorize", nil, func(w *world, st *harness.MemStore) outcome {
			req := harness.SignedRequest(harness.Info(w.k["K1"], w.e["K1"], n1), w.k["K1"])
			n, err := registration.AuthorizeNode(harness.Ctx, st, req)
			o := outcome{Err: err, Handed: n != nil}
			if err == nil {
				stored := st.NodeInfo(w.k["K1"].KeyId)
				if stored == nil || !proto.Equal(stored, n) {
					o.Durable = "returned node information is not what storage holds"
				}
			}
			return o
		}},
		{"fetch-authorized", func(w *world, st *harness.MemStore) {
			req := harness.SignedRequest(harness.Info(w.k["K1"], w.e["K1"], n1), w.k["K1"])
			if _, err := registration.AuthorizeNode(harness.Ctx, st, req); err != nil {
				panic(err)
			}
		}, func(w *world, st *harness.MemStore) outcome {
			req := harness.SignedRequest(harness.Info(w.k["K1"], w.e["K1"], n1), w.k["K1"])
			resp, err := registration.FetchNodeCredentials(harness.Ctx, st, req)
			return fetchOutcome(w, st, "K1", n1, resp, err)
		}},
		{"fetch-unauthorized", nil, func(w *world, st *harness.MemStore) outcome {
			req := harness.SignedRequest(harness.Info(w.k["K1"], w.e["K1"], n1), w.k["K1"])
			resp, err := registration.FetchNodeCredentials(harness.Ctx, st, req)
			o := fetchOutcome(w, st, "K1", n1, resp, err)
			if o.Handed {
				o.Durable = "credentials issued to a node nobody authorized"
			}
			return o
		}},
		{"fetch-token", nil, func(w *world, st *harness.MemStore) outcome {
			req := harness.SignedRequest(harness.Info(w.k["K1"], w.e["K1"], w.tok.Bytes), w.k["K1"])
			resp, err := registration.FetchNodeCredentials(harness.Ctx, st, req)
			o := fetchOutcome(w, st, "K1", w.tok.Bytes, resp, err)
			if st.NodeInfo(w.k["K1"].KeyId) != nil {
				if _, still := st.Raw("token", w.tok.Id); still {
					o.Durable = "a node record was created from the token but the token is still in storage (left usable)"
				}
			}
			return o
		}},
		{"fetch-wrapper", nil, func(w *world, st *harness.MemStore) outcome {
			info := harness.Info(w.k["K1"], w.e["K1"], n1)
			info.WrappedRegistrationInfo = harness.SealRegistrationInfo(w.rw, w.k["K1"].Pkix, n1)
			resp, err := registration.FetchNodeCredentials(harness.Ctx, st, harness.SignedRequest(info, w.k["K1"]), nodeenrollment.WithRegistrationWrapper(w.rw))
			return fetchOutcome(w, st, "K1", n1, resp, err)
		}},
		{"fetch-rewrapped", nil, func(w *world, st *harness.MemStore) outcome {
			req := harness.SignedRequest(harness.Info(w.k["K1"], w.e["K1"], n1), w.k["K1"])
			blob, err := nodeenrollment.EncryptMessage(harness.Ctx, &types.WrappingRegistrationFlowInfo{CertificatePublicKeyPkix: w.k["K1"].Pkix, Nonce: n1}, w.nodeSide("KR", w.rPub))
			if err != nil {
				panic(err)
			}
			req.RewrappedWrappingRegistrationFlowInfo, req.RewrappingKeyId = blob, w.k["KR"].KeyId
			resp, err := registration.FetchNodeCredentials(harness.Ctx, st, req)
			return fetchOutcome(w, st, "K1", n1, resp, err)
		}},
		{"create-token", nil, func(w *world, st *harness.MemStore) outcome {
			id, tok, err := registration.CreateServerLedActivationToken(harness.Ctx, st, &types.ServerLedRegistrationRequest{})
			o := outcome{Err: err, Handed: id != "" || tok != ""}
			if err == nil {
				if _, ok := st.Raw("token", id); !ok {
					o.Durable = "a token was handed out but its record is not in storage"
				}
			}
			return o
		}},
		rootsFlow("roots-empty", func(w *world, st *harness.MemStore) { st.DeleteRaw("roots", nodeenrollment.RootsMessageId) }, false, 0),
		rootsFlow("roots-noop", nil, false, 0),
		rootsFlow("roots-promote", nil, false, 8),
		rootsFlow("roots-reinit", nil, true, 0),
		rotateFlow("rotate-node-keyid", false),
		rotateFlow("rotate-node-nodeid", true),
		genFlow("gen-certs-keyid", false),
		genFlow("gen-certs-nodeid", true),
		genAfterReplacementFlow(),
		{"node-new-credentials", func(w *world, st *harness.MemStore) {
			for _, k := range st.Keys() {
				f := strings.SplitN(k, "/", 2)
				st.DeleteRaw(f[0], f[1])
			}
		}, func(w *world, st *harness.MemStore) outcome {
			c, err := types.NewNodeCredentials(harness.Ctx, st)
			o := outcome{Err: err, Handed: c != nil}
			if err == nil {
				l, lerr := types.LoadNodeCredentials(harness.Ctx, st.Clone(), nodeenrollment.CurrentId)
				if lerr != nil || !proto.Equal(l, c) {
					o.Durable = "returned node credentials are not what the node's storage holds"
				}
			}
			return o
		}},
		{"node-handle-response", func(w *world, st *harness.MemStore) {
			// st becomes the node's store holding fresh credentials; the server side is the base store
			for _, k := range st.Keys() {
				f := strings.SplitN(k, "/", 2)
				st.DeleteRaw(f[0], f[1])
			}
			if err := harness.NodeCreds(w.k["KA"], w.e["KA"], harness.Bytes("nonce-KA", 32)).Store(harness.Ctx, st); err != nil {
				panic(err)
			}
		}, func(w *world, st *harness.MemStore) outcome {
			req := harness.SignedRequest(harness.Info(w.k["KA"], w.e["KA"], harness.Bytes("nonce-KA", 32)), w.k["KA"])
			resp, err := registration.FetchNodeCredentials(harness.Ctx, w.base.Clone(), req)
			if err != nil || !harness.HasCreds(resp) {
				panic(fmt.Sprint("server side of node-handle-response: ", err))
			}
			c, lerr := types.LoadNodeCredentials(harness.Ctx, st, nodeenrollment.CurrentId)
			if lerr != nil {
				return outcome{Err: lerr}
			}
			out, err := c.HandleFetchNodeCredentialsResponse(harness.Ctx, st, resp)
			o := outcome{Err: err, Handed: out != nil}
			if err == nil {
				l, lerr := types.LoadNodeCredentials(harness.Ctx, st.Clone(), nodeenrollment.CurrentId)
				if lerr != nil || len(l.CertificateBundles) != 2 || !proto.Equal(l, out) {
					o.Durable = "the node reports updated credentials that its storage does not hold"
				}
			}
			return o
		}},
		{"node-handle-token-response-retried", func(w *world, st *harness.MemStore) {
			// st becomes the node's store: fresh credentials of K1, to be enrolled with the activation token
			for _, k := range st.Keys() {
				f := strings.SplitN(k, "/", 2)
				st.DeleteRaw(f[0], f[1])
			}
			if _, err := types.NewNodeCredentials(harness.Ctx, st, nodeenrollment.WithActivationToken(w.tok.String), nodeenrollment.WithRandomReader(harness.DetRand("c13-token-node"))); err != nil {
				panic(err)
			}
		}, func(w *world, st *harness.MemStore) outcome {
			c, lerr := types.LoadNodeCredentials(harness.Ctx, st, nodeenrollment.CurrentId)
			if lerr != nil {
				return outcome{Err: lerr}
			}
			req, rerr := c.CreateFetchNodeCredentialsRequest(harness.Ctx, nodeenrollment.WithActivationToken(w.tok.String))
			if rerr != nil {
				panic(rerr)
			}
			resp, err := registration.FetchNodeCredentials(harness.Ctx, w.base.Clone(), req)
			if err != nil || !harness.HasCreds(resp) {
				panic(fmt.Sprint("server side of node-handle-token-response-retried: ", err))
			}
			// the node handles the answer; when that fails (its store failed) it
			// tries again with the same answer on the same credentials object -
			// the token is spent, there is no second answer to be had
			out, err := c.HandleFetchNodeCredentialsResponse(harness.Ctx, st, resp, nodeenrollment.WithActivationToken(w.tok.String))
			if err != nil {
				out, err = c.HandleFetchNodeCredentialsResponse(harness.Ctx, st, resp, nodeenrollment.WithActivationToken(w.tok.String))
			}
			o := outcome{Err: err, Handed: out != nil}
			if err == nil {
				l, lerr := types.LoadNodeCredentials(harness.Ctx, st.Clone(), nodeenrollment.CurrentId)
				if lerr != nil || len(l.CertificateBundles) != 2 || !proto.Equal(l, out) {
					o.Durable = "the node reports updated credentials that its storage does not hold"
				}
			}
			return o
		}},
		storeOnceRetryFlow("fetch-wrapper-retry-storeonce-ptr-error", 0),
		storeOnceRetryFlow("fetch-wrapper-retry-storeonce-value-error", 1),
		dialFlow("dial-first-time-node-faults", true),
		dialFlow("dial-first-time-server-faults", false),
	}
}

// storeOnceRetryFlow: on a storage that refuses to overwrite node records, an
// honest node repeats its wrapper-flow fetch; the duplicate-record path must
// answer from what is stored (either form of DuplicateRecordError).
func storeOnceRetryFlow(name string, dupForm int) flow {
	n1 := harness.Bytes("nonce-K1", 32)
	mk := func(w *world) *types.FetchNodeCredentialsRequest {
		info := harness.Info(w.k["K1"], w.e["K1"], n1)
		info.WrappedRegistrationInfo = harness.SealRegistrationInfo(w.rw, w.k["K1"].Pkix, n1)
		return harness.SignedRequest(info, w.k["K1"])
	}
	return flow{name, func(w *world, st *harness.MemStore) {
		st.StoreOnce, st.DupForm = true, dupForm
		if resp, err := registration.FetchNodeCredentials(harness.Ctx, st, mk(w), nodeenrollment.WithRegistrationWrapper(w.rw)); err != nil || !harness.HasCreds(resp) {
			panic(fmt.Sprint("first wrapper fetch failed: ", err))
		}
	}, func(w *world, st *harness.MemStore) outcome {
		resp, err := registration.FetchNodeCredentials(harness.Ctx, st, mk(w), nodeenrollment.WithRegistrationWrapper(w.rw))
		return fetchOutcome(w, st, "K1", n1, resp, err)
	}}
}

// dialFlow: an authorized node dials for the first time (fetch handshake,
// handling of the response, authentication handshake) through the real
// listener; faults hit either the node's or the server's storage.
func dialFlow(name string, nodeFaults bool) flow {
	return flow{name, func(w *world, st *harness.MemStore) {
		if nodeFaults {
			// st becomes the node's store; the server side is a clone of the base store
			for _, k := range st.Keys() {
				f := strings.SplitN(k, "/", 2)
				st.DeleteRaw(f[0], f[1])
			}
			if err := harness.NodeCreds(w.k["KA"], w.e["KA"], harness.Bytes("nonce-KA", 32)).Store(harness.Ctx, st); err != nil {
				panic(err)
			}
		}
	}, func(w *world, st *harness.MemStore) outcome {
		server, node := w.base.Clone(), st
		if !nodeFaults {
			server = st
			node = harness.NewMemStore()
			if err := harness.NodeCreds(w.k["KA"], w.e["KA"], harness.Bytes("nonce-KA", 32)).Store(harness.Ctx, node); err != nil {
				panic(err)
			}
		}
		var derr error
		connected := false
		rs, serr := harness.Serve(harness.ServerConfig{Storage: server}, func(addr string) {
			conn, e := protocol.Dial(harness.Ctx, node, addr)
			derr = e
			if conn != nil {
				connected = true
				conn.Close()
			}
		})
		harness.CloseAll(rs)
		if serr != nil {
			panic(serr)
		}
		for _, a := range rs {
			if a.Panic != "" {
				panic("Accept panicked: " + a.Panic)
			}
		}
		o := outcome{Err: derr, Handed: connected}
		if derr == nil && connected {
			l, lerr := types.LoadNodeCredentials(harness.Ctx, node.Clone(), nodeenrollment.CurrentId)
			switch {
			case lerr != nil || len(l.CertificateBundles) != 2:
				o.Durable = "the dial succeeded but the node's storage does not hold the fetched certificates"
			case server.NodeInfo(w.k["KA"].KeyId) == nil:
				o.Durable = "the dial succeeded but the server holds no record of the node"
			}
		}
		return o
	}}
}

func rootsFlow(name string, prep func(*world, *harness.MemStore), reinit bool, advanceDays int) flow {
	return flow{name, prep, func(w *world, st *harness.MemStore) outcome {
		vclock.Freeze(harness.T0.AddDate(0, 0, advanceDays))
		defer vclock.Freeze(harness.T0)
		pre, _ := types.LoadRootCertificates(harness.Ctx, st.Clone())
		ret, err := rotation.RotateRootCertificates(harness.Ctx, st, nodeenrollment.WithReinitializeRoots(reinit))
		o := outcome{Err: err, Handed: ret != nil}
		if err == nil {
			l, lerr := types.LoadRootCertificates(harness.Ctx, st.Clone())
			if lerr != nil || !proto.Equal(l, ret) {
				o.Durable = "the returned root set is not what storage holds"
			} else if reinit && pre != nil && (bytes.Equal(pre.Current.PublicKeyPkix, ret.Current.PublicKeyPkix) || bytes.Equal(pre.Next.PublicKeyPkix, ret.Next.PublicKeyPkix) || bytes.Equal(pre.Next.PublicKeyPkix, ret.Current.PublicKeyPkix)) {
				o.Durable = "reinitialization reported success although the stored roots were not replaced"
			}
		}
		return o
	}}
}

func rotateFlow(name string, byNode bool) flow {
	return flow{name, nil, func(w *world, st *harness.MemStore) outcome {
		nn := harness.Bytes("nonce-KN", 32)
		inner := harness.SignedRequest(harness.Info(w.k["KN"], w.e["KN"], nn), w.k["KN"])
		ct, err := nodeenrollment.EncryptMessage(harness.Ctx, inner, w.nodeSide("KA", w.aPub))
		if err != nil {
			panic(err)
		}
		req := &types.RotateNodeCredentialsRequest{CertificatePublicKeyPkix: w.k["KA"].Pkix, EncryptedFetchNodeCredentialsRequest: ct}
		if byNode {
			req.NodeId = "X"
		}
		resp, err := rotation.RotateNodeCredentials(harness.Ctx, st, req)
		o := outcome{Err: err, Handed: resp != nil && len(resp.EncryptedFetchNodeCredentialsResponse) > 0}
		if err == nil {
			o.Durable = w.recordMatches(st, "KN", nn)
		}
		return o
	}}
}

func genFlow(name string, byNode bool) flow {
	return flow{name, nil, func(w *world, st *harness.MemStore) outcome {
		nonce := harness.Bytes("gen-nonce", 32)
		req := &types.GenerateServerCertificatesRequest{CertificatePublicKeyPkix: w.k["KA"].Pkix, Nonce: nonce, NonceSignature: w.k["KA"].Sign(nonce)}
		if byNode {
			req.NodeId = "X"
		}
		resp, err := nodetls.GenerateServerCertificates(harness.Ctx, st, req)
		o := outcome{Err: err, Handed: resp != nil}
		if err == nil && resp != nil {
			// the certificates handed out must be issued by the roots storage holds now
			roots, lerr := types.LoadRootCertificates(harness.Ctx, st.Clone())
			if lerr != nil || len(resp.CertificateBundles) != 2 ||
				!bytes.Equal(resp.CertificateBundles[0].CaCertificateDer, roots.Current.CertificateDer) || !bytes.Equal(resp.CertificateBundles[1].CaCertificateDer, roots.Next.CertificateDer) {
				o.Durable = "server certificates were issued by roots that are not the ones in storage"
			}
		}
		return o
	}}
}

// genAfterReplacementFlow: certificates were generated before, then the roots
// were reinitialized; a later generation (with faults) must never fall back on
// what an earlier call saw.
func genAfterReplacementFlow() flow {
	f := genFlow("gen-certs-after-roots-replaced", false)
	inner := f.Run
	f.Prep = func(w *world, st *harness.MemStore) {
		if o := inner(w, st); o.Err != nil {
			panic(o.Err)
		}
		if _, err := rotation.RotateRootCertificates(harness.Ctx, st, nodeenrollment.WithReinitializeRoots(true)); err != nil {
			panic(err)
		}
	}
	return f
}

type kase struct {
	Flow   string   `json:"flow"`
	Faults []int    `json:"faults"` // 1-based call numbers
	Kinds  []string `json:"kinds"`
	Seed   int64    `json:"seed"`
}

func (w *world) one(f flow, k kase, r *engine.Report) (string, string, int) {
	st := w.base.Clone()
	if f.Prep != nil {
		f.Prep(w, st)
	}
	before := st.Snapshot()
	st.ResetLog()
	st.Record = true
	st.Faults = map[int]error{}
	for i, pos := range k.Faults {
		st.Faults[pos] = kinds[k.Kinds[i]]
	}
	var o outcome
	panicked := ""
	func() {
		defer func() {
			if p := recover(); p != nil {
				panicked = fmt.Sprint(p)
			}
		}()
		o = f.Run(w, st)
	}()
	calls := st.Calls
	w.lastErr = o.Err
	hit := 0
	for _, op := range st.Log {
		if op.Err != "" && op.Err != "not found" && op.Err != "duplicate" {
			hit++
		}
	}
	if len(k.Faults) > 0 && hit < len(k.Faults) {
		r.Outcome("trivial")
	}
	st.Faults = nil
	desc := fmt.Sprintf("flow %s with storage call(s) %v failing (%v)", f.Name, k.Faults, k.Kinds)
	if len(k.Faults) > 0 {
		var ops []string
		for _, op := range st.Log {
			if op.Err != "" && op.Err != "not found" && op.Err != "duplicate" {
				ops = append(ops, op.Call+" "+op.Kind+"/"+op.Id)
			}
		}
		desc += fmt.Sprintf(" [failing: %s]", strings.Join(ops, "; "))
	}
	if panicked != "" {
		return "panic:" + f.Name, desc + " panicked: " + panicked, calls
	}
	switch {
	case o.Err != nil && o.Handed:
		return "error-but-result:" + f.Name, desc + fmt.Sprintf(": returned an error (%v) together with a result", o.Err), calls
	case o.Err == nil && o.Durable != "":
		return "success-not-durable:" + f.Name, desc + ": reported success but " + o.Durable, calls
	}
	if o.Durable != "" && strings.Contains(o.Durable, "left usable") {
		return "token-left-usable:" + f.Name, desc + ": " + o.Durable, calls
	}
	if f.Name != "node-new-credentials" && f.Name != "node-handle-response" && f.Name != "node-handle-token-response-retried" && f.Name != "dial-first-time-node-faults" {
		// the token clause holds whatever the call returned
		if f.Name == "fetch-token" && st.NodeInfo(w.k["K1"].KeyId) != nil {
			if _, still := st.Raw("token", w.tok.Id); still {
				return "token-left-usable:" + f.Name, desc + ": a node record was created from the token but the token is still in storage", calls
			}
		}
		if o.Err != nil {
			b, ok := st.Raw("nodeinfo", w.k["KB"].KeyId)
			if !ok || !bytes.Equal(b, w.bSnap) {
				return "bystander-altered:" + f.Name, desc + ": the failed call altered or removed another node's record", calls
			}
			// a failed call must not have touched other existing node records either
			for key, v := range before {
				if strings.HasPrefix(key, "nodeinfo/") {
					if a, ok := st.Raw("nodeinfo", strings.TrimPrefix(key, "nodeinfo/")); !ok || !bytes.Equal(a, v) {
						return "record-altered-by-failed-call:" + f.Name, desc + ": the failed call altered or removed the existing record " + key, calls
					}
				}
			}
		}
	}
	if o.Err != nil {
		r.Branch("failed-closed")
	} else if len(k.Faults) > 0 {
		r.Branch("succeeded-despite-fault")
	} else {
		r.Branch("fault-free")
	}
	return "", "", calls
}

func run(c *engine.Ctx, r *engine.Report) {
	r.Need("failed-closed", "fault-free", "succeeded-despite-fault")
	w := newWorld(c.Seed)
	fs := flows()
	i := 0
	positions := map[string]int{}
	for _, f := range fs {
		// fault-free run: counts the storage calls and must succeed
		sig, msg, n := w.one(f, kase{Flow: f.Name, Seed: c.Seed}, r)
		if sig != "" {
			r.Violate("fault-free:"+sig, msg, kase{Flow: f.Name, Seed: c.Seed})
			continue
		}
		if w.lastErr != nil {
			r.InfraError(fmt.Sprintf("flow %s does not succeed without faults: %v", f.Name, w.lastErr))
			continue
		}
		positions[f.Name] = n
		try := func(k kase) {
			i++
			if !c.Mine(i) {
				return
			}
			r.Eval(1)
			before := r.Outcomes["trivial"]
			if sig, msg, _ := w.one(f, k, r); sig != "" {
				r.Violate(sig, msg, k)
				return
			}
			if r.Outcomes["trivial"] == before {
				r.Nontrivial(1) // every injected fault was actually reached
			}
			if i%131 == 0 {
				r.Sample(k)
			}
		}
		for pos := 1; pos <= n; pos++ {
			for _, kd := range kindNames {
				try(kase{f.Name, []int{pos}, []string{kd}, c.Seed})
			}
		}
		if !c.Thorough() {
			// an outage rather than a blip: two consecutive calls fail (what a
			// retry-once wrapper around a write must survive)
			for pos := 1; pos <= n; pos++ {
				try(kase{f.Name, []int{pos, pos + 1}, []string{kindNames[0], kindNames[0]}, c.Seed})
			}
		}
		if c.Thorough() {
			for p1 := 1; p1 <= n+1; p1++ {
				for p2 := p1 + 1; p2 <= n+2; p2++ {
					for _, k1 := range kindNames {
						for _, k2 := range kindNames {
							try(kase{f.Name, []int{p1, p2}, []string{k1, k2}, c.Seed})
						}
					}
				}
			}
		}
	}
	if c.Shard == 0 {
		var names []string
		for n, p := range positions {
			names = append(names, fmt.Sprintf("%s:%d", n, p))
		}
		sort.Strings(names)
		r.Extra["storage_calls_per_flow"] = strings.Join(names, " ")
		r.Extra["flows"] = float64(len(fs))
	}
	vclock.Reset()
}

func replay(c *engine.Ctx, raw json.RawMessage) (string, bool) {
	var k kase
	if err := json.Unmarshal(raw, &k); err != nil {
		return err.Error(), false
	}
	w := newWorld(k.Seed)
	defer vclock.Reset()
	for _, f := range flows() {
		if f.Name == k.Flow {
			sig, msg, _ := w.one(f, k, engine.NewReport())
			if sig == "" {
				return fmt.Sprintf("case %+v: holds", k), false
			}
			return sig + ": " + msg, true
		}
	}
	return "unknown flow", false
}

func init() {
	engine.Register(&engine.CheckDef{
		ID:    "C13",
		Level: "fault_enumeration",
		Rule: "23 flows (authorize; fetch: authorized / unauthorized / token / wrapper / re-wrapped; token creation; root rotation: empty / no-op / promote / reinit; node rotation by key id / node id; server certificates by key id / node id / after the roots were replaced; node-side NewNodeCredentials and HandleFetchNodeCredentialsResponse (node-led; token-led with a retry of the same answer on the same object after a failure); a repeated wrapper fetch on a store-once storage (both duplicate-error forms); a first-time Dial through the real listener with faults in the node's resp. the server's storage) x every storage call position of the fault-free run x {generic error, ErrNotFound, context.Canceled}; quick adds every pair of consecutive positions failing with the generic error, thorough every pair of positions x 9 kind pairs; " +
			"distinct_nontrivial counts fault placements (distinct by construction) in which every injected fault was actually reached by the call",
		Assumptions: []string{"a failing storage call has no effect (no torn writes: the Storage interface is message-granular)", "a fault that turns a refusal into a durable success is not judged here (the property allows a result that is fully reflected in storage)"},
		Shards:      func(c *engine.Ctx) int { return 8 },
		Run:         run,
		Replay:      replay,
	})
}
