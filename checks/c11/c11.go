// Package c11: encrypted messages are authenticated and bound to key and key
// id (E4: bounded-exhaustive enumeration of key pairings and ciphertext
// mutations against the real EncryptMessage/DecryptMessage).
package c11

import (
	"bytes"
	"encoding/json"
	"fmt"
	"google.golang.org/protobuf/encoding/protowire"
	"strings"

	wrapping "github.com/hashicorp/go-kms-wrapping/v2"
	"github.com/hashicorp/nodeenrollment"
	"github.com/hashicorp/nodeenrollment/types"
	"google.golang.org/protobuf/proto"
	"google.golang.org/protobuf/types/known/structpb"
	"verif/engine"
	"verif/harness"
)

// agreement names one X25519 agreement and key id: node key n, server key s,
// certificate key k (indices into the pool).
type agreement struct{ N, S, K int }

func (a agreement) String() string { return fmt.Sprintf("(E%d,S%d,K%d)", a.N+1, a.S+1, a.K+1) }

type kase struct {
	Kind   string     `json:"kind"` // derive | pair | prev | mutate
	Seed   int64      `json:"seed"`
	Msg    string     `json:"msg,omitempty"`
	Size   string     `json:"size,omitempty"`
	Sender agreement  `json:"sender"`
	Side   string     `json:"side,omitempty"` // which side encrypts: node | server
	Recv   agreement  `json:"recv"`
	Prev   *agreement `json:"prev,omitempty"`
	Mut    string     `json:"mut,omitempty"` // flip:<bit> trunc:<n> short:<n> bytes:<hex> drop:<field>
}

var allAgreements = func() []agreement {
	var out []agreement
	for n := 0; n < 2; n++ {
		for s := 0; s < 2; s++ {
			for k := 0; k < 2; k++ {
				out = append(out, agreement{n, s, k})
			}
		}
	}
	return out
}()

func nodeSide(p *harness.Pool, a agreement, prev *agreement) *types.NodeCredentials {
	n := harness.NodeCreds(p.K[a.K], p.E[a.N], nil)
	n.ServerEncryptionPublicKeyBytes = p.S[a.S].Pub
	n.ServerEncryptionPublicKeyType = types.KEYTYPE_X25519
	if prev != nil {
		if prev.N == 1 {
			// this object was re-keyed before, under the same certificate key
			// (same key id): the later recording replaces the earlier one
			if err := n.SetPreviousEncryptionKey(nodeSide(p, agreement{1 - prev.N, 1 - prev.S, prev.K}, nil)); err != nil {
				panic(err)
			}
		}
		old := nodeSide(p, *prev, nil)
		if err := n.SetPreviousEncryptionKey(old); err != nil {
			panic(err)
		}
	}
	return n
}

func serverSide(p *harness.Pool, a agreement, prev *agreement) *types.NodeInformation {
	n := &types.NodeInformation{
		Id:                              p.K[a.K].KeyId,
		CertificatePublicKeyPkix:        p.K[a.K].Pkix,
		CertificatePublicKeyType:        types.KEYTYPE_ED25519,
		EncryptionPublicKeyBytes:        p.E[a.N].Pub,
		EncryptionPublicKeyType:         types.KEYTYPE_X25519,
		ServerEncryptionPrivateKeyBytes: p.S[a.S].Priv,
		ServerEncryptionPrivateKeyType:  types.KEYTYPE_X25519,
	}
	if prev != nil {
		if prev.N == 1 {
			if err := n.SetPreviousEncryptionKey(serverSide(p, agreement{1 - prev.N, 1 - prev.S, prev.K}, nil)); err != nil {
				panic(err)
			}
		}
		old := serverSide(p, *prev, nil)
		if err := n.SetPreviousEncryptionKey(old); err != nil {
			panic(err)
		}
	}
	return n
}

func source(p *harness.Pool, side string, a agreement, prev *agreement) nodeenrollment.X25519KeyProducer {
	if side == "node" {
		return nodeSide(p, a, prev)
	}
	return serverSide(p, a, prev)
}

// idProducer is an application-supplied key producer: the agreement of the
// wrapped value under a key id of the application's choice (the interface
// documents that an empty id is "simply unused").
type idProducer struct {
	nodeenrollment.X25519KeyProducer
	id string
}

func (p idProducer) X25519EncryptionKey() (string, []byte, error) {
	_, k, err := p.X25519KeyProducer.X25519EncryptionKey()
	return p.id, k, err
}

var customIds = []string{"", "id-a", "id-b"}

// retaining hands out the very same key slice on every call.
type retaining struct {
	id  string
	key []byte
}

func (p *retaining) X25519EncryptionKey() (string, []byte, error) { return p.id, p.key, nil }
func (p *retaining) PreviousX25519EncryptionKey() (string, []byte, error) {
	return "", nil, nil
}

func other(side string) string {
	if side == "node" {
		return "server"
	}
	return "node"
}

func matches(a, b agreement) bool { return a == b }

var msgKinds = []string{"FetchRequest", "FetchResponse", "NodeCredentials", "WrappingInfo", "Struct"}
var sizes = []string{"empty", "typical", "4k"}

// message returns a message of the kind and size and a blank result object.
// The "typical" messages also carry a field their type does not declare (what
// a newer peer's message looks like): it is part of the authenticated
// plaintext and of what "the original plaintext" means.
func message(kind, size string, seed int64) (proto.Message, proto.Message) {
	m, blank := messageDeclared(kind, size, seed)
	if size == "typical" {
		var unk []byte
		unk = protowire.AppendTag(unk, 1999, protowire.BytesType)
		unk = protowire.AppendBytes(unk, []byte("a field of a later version"))
		m.ProtoReflect().SetUnknown(unk)
	}
	return m, blank
}

func messageDeclared(kind, size string, seed int64) (proto.Message, proto.Message) {
	n := 0
	switch size {
	case "typical":
		n = 48
	case "4k":
		n = 4096
	}
	blob := harness.Bytes(fmt.Sprintf("msg:%s:%s:%d", kind, size, seed), n)
	switch kind {
	case "FetchRequest":
		m := &types.FetchNodeCredentialsRequest{}
		if n > 0 {
			m.Bundle, m.BundleSignature = blob, blob[:n/2]
		}
		return m, new(types.FetchNodeCredentialsRequest)
	case "FetchResponse":
		m := &types.FetchNodeCredentialsResponse{}
		if n > 0 {
			m.EncryptedNodeCredentials, m.ServerEncryptionPublicKeyBytes, m.ServerEncryptionPublicKeyType = blob, blob[:32], types.KEYTYPE_X25519
		}
		return m, new(types.FetchNodeCredentialsResponse)
	case "NodeCredentials":
		m := &types.NodeCredentials{}
		if n > 0 {
			m.RegistrationNonce = blob[:32]
			m.CertificateBundles = []*types.CertificateBundle{{CertificateDer: blob, CaCertificateDer: blob[:n/2]}, {CertificateDer: blob[:n/3]}}
		}
		return m, new(types.NodeCredentials)
	case "WrappingInfo":
		m := &types.WrappingRegistrationFlowInfo{}
		if n > 0 {
			m.Nonce, m.CertificatePublicKeyPkix = blob[:32], blob
			// (single-entry maps only: protobuf marshals map entries in random
			// order, and the envelopes must be the same bytes in every run)
			m.ApplicationSpecificParams = harness.Struct(map[string]any{"a": []any{"b", 1.5}})
		}
		return m, new(types.WrappingRegistrationFlowInfo)
	default:
		m := &structpb.Struct{}
		if n > 0 {
			m = harness.Struct(map[string]any{"v": []any{string(bytes.Repeat([]byte("x"), n)), map[string]any{"k": []any{1.0, "two", nil}}}})
		}
		return m, new(structpb.Struct)
	}
}

func guard(f func()) (panicked string) {
	defer func() {
		if r := recover(); r != nil {
			panicked = fmt.Sprint(r)
		}
	}()
	f()
	return ""
}

func mutate(ct []byte, mut string) []byte {
	var a int
	switch {
	case strings.HasPrefix(mut, "flip:"):
		fmt.Sscanf(mut, "flip:%d", &a)
		out := append([]byte{}, ct...)
		out[a/8] ^= 1 << uint(a%8)
		return out
	case strings.HasPrefix(mut, "trunc:"):
		fmt.Sscanf(mut, "trunc:%d", &a)
		return append([]byte{}, ct[:a]...)
	case strings.HasPrefix(mut, "short:"):
		fmt.Sscanf(mut, "short:%d", &a)
		bi := new(wrapping.BlobInfo)
		if err := proto.Unmarshal(ct, bi); err != nil {
			panic(err)
		}
		if a <= len(bi.Ciphertext) {
			bi.Ciphertext = bi.Ciphertext[:a]
		}
		b, _ := proto.Marshal(bi)
		return b
	case strings.HasPrefix(mut, "bytes:"):
		var out []byte
		fmt.Sscanf(mut, "bytes:%x", &out)
		return out
	case strings.HasPrefix(mut, "drop:"):
		bi := new(wrapping.BlobInfo)
		if err := proto.Unmarshal(ct, bi); err != nil {
			panic(err)
		}
		switch strings.TrimPrefix(mut, "drop:") {
		case "ciphertext":
			bi.Ciphertext = nil
		case "iv":
			bi.Iv = nil
		case "hmac":
			bi.Hmac = nil
		case "keyinfo":
			bi.KeyInfo = nil
		case "wrapped":
			bi.Wrapped = !bi.Wrapped
		}
		b, _ := proto.Marshal(bi)
		return b
	}
	panic("unknown mutation " + mut)
}

// zeroed returns the envelope with the same structure and lengths but all
// ciphertext, IV and HMAC bytes zero.
func zeroed(ct []byte) []byte {
	bi := new(wrapping.BlobInfo)
	if err := proto.Unmarshal(ct, bi); err != nil {
		panic(err)
	}
	bi.Ciphertext, bi.Iv, bi.Hmac = make([]byte, len(bi.Ciphertext)), make([]byte, len(bi.Iv)), make([]byte, len(bi.Hmac))
	out, _ := proto.Marshal(bi)
	if len(out) != len(ct) {
		panic("c11: zeroed envelope changed length")
	}
	return out
}

func mutClass(mut string) string {
	if i := strings.Index(mut, ":"); i > 0 {
		return mut[:i]
	}
	return mut
}

// one runs a single case and returns a violation (signature, message).
func one(p *harness.Pool, k kase, r *engine.Report) (string, string) {
	ctx := harness.Ctx
	switch k.Kind {
	case "derive":
		n, s := nodeSide(p, k.Sender, nil), serverSide(p, k.Sender, nil)
		id1, k1, e1 := n.X25519EncryptionKey()
		id2, k2, e2 := s.X25519EncryptionKey()
		if e1 != nil || e2 != nil {
			return "derive:error", fmt.Sprintf("key derivation failed for %v: %v / %v", k.Sender, e1, e2)
		}
		if id1 != id2 || !bytes.Equal(k1, k2) {
			return "derive:mismatch", fmt.Sprintf("node side and server side of agreement %v derive different secrets or ids", k.Sender)
		}
		// the previous-key accessor must agree as well
		np, sp := nodeSide(p, k.Recv, &k.Sender), serverSide(p, k.Recv, &k.Sender)
		pid1, pk1, pe1 := np.PreviousX25519EncryptionKey()
		pid2, pk2, pe2 := sp.PreviousX25519EncryptionKey()
		if pe1 != nil || pe2 != nil || pid1 != id1 || pid2 != id1 || !bytes.Equal(pk1, k1) || !bytes.Equal(pk2, k1) {
			return "derive:previous-mismatch", fmt.Sprintf("recorded previous key of %v does not reproduce the agreement (%v %v)", k.Sender, pe1, pe2)
		}
		r.Branch("derive")
		return "", ""
	}
	msg, blank := message(k.Msg, k.Size, k.Seed)
	var ct []byte
	var err error
	if pm := guard(func() {
		sender := k.Sender
		if k.Kind == "custom-id" {
			sender.K = 0 // there the K fields index customIds; the envelope is rebuilt below
		}
		ct, err = nodeenrollment.EncryptMessage(ctx, msg, source(p, k.Side, sender, nil), nodeenrollment.WithRandomReader(harness.DetRand("enc-iv")))
	}); pm != "" {
		return "encrypt:panic", "EncryptMessage panicked: " + pm
	}
	if err != nil {
		return "encrypt:error", fmt.Sprintf("EncryptMessage failed: %v", err)
	}
	if k.Kind == "custom-id" {
		// same shared secret on both sides; only the key ids of the two producers vary
		si, ri := customIds[k.Sender.K], customIds[k.Recv.K]
		snd := idProducer{source(p, k.Side, agreement{k.Sender.N, k.Sender.S, 0}, nil), si}
		rcv := idProducer{source(p, other(k.Side), agreement{k.Sender.N, k.Sender.S, 0}, nil), ri}
		ct, err = nodeenrollment.EncryptMessage(ctx, msg, snd, nodeenrollment.WithRandomReader(harness.DetRand("enc-iv")))
		if err != nil {
			return "encrypt:error", fmt.Sprintf("EncryptMessage with key id %q failed: %v", si, err)
		}
		if pm := guard(func() { err = nodeenrollment.DecryptMessage(ctx, ct, rcv, blank) }); pm != "" {
			return "decrypt:panic:custom-id", "DecryptMessage panicked: " + pm
		}
		switch {
		case si == ri && (err != nil || !proto.Equal(msg, blank)):
			return "roundtrip:fails:custom-id", fmt.Sprintf("sender and receiver key id %q, same secret: round trip failed: %v", si, err)
		case si != ri && err == nil:
			return "binding:key-id:custom-id", fmt.Sprintf("a message sealed under key id %q opened for a receiver whose key id is %q (same shared secret)", si, ri)
		}
		if si == ri {
			// a producer that keeps its derived key and hands the same slice out
			// every time: the key is the producer's, a second message must be
			// sealed under it like the first
			_, key, _ := snd.X25519EncryptionKey()
			keep := &retaining{id: si, key: append([]byte{}, key...)}
			for i := 0; i < 2; i++ {
				ct2, err := nodeenrollment.EncryptMessage(ctx, msg, keep, nodeenrollment.WithRandomReader(harness.DetRand("enc-iv")))
				if err != nil {
					return "encrypt:error", fmt.Sprintf("EncryptMessage #%d with a retaining producer failed: %v", i+1, err)
				}
				_, b2 := message(k.Msg, k.Size, k.Seed)
				if err := nodeenrollment.DecryptMessage(ctx, ct2, rcv, b2); err != nil || !proto.Equal(msg, b2) {
					return "roundtrip:fails:retained-key", fmt.Sprintf("message #%d from a producer that hands out the same key slice every time does not open for its peer: %v", i+1, err)
				}
			}
			if !bytes.Equal(keep.key, key) {
				return "producer-key-modified", "EncryptMessage changed the key bytes its key producer handed out"
			}
			r.Branch("opened-with-current-key")
		} else {
			r.Branch("rejected-wrong-key-id")
		}
		return "", ""
	}
	recvSrc := source(p, other(k.Side), k.Recv, k.Prev)
	switch k.Kind {
	case "pair", "prev":
		want := matches(k.Sender, k.Recv) || (k.Prev != nil && matches(k.Sender, *k.Prev))
		if pm := guard(func() { err = nodeenrollment.DecryptMessage(ctx, ct, recvSrc, blank) }); pm != "" {
			return "decrypt:panic:" + k.Kind, "DecryptMessage panicked: " + pm
		}
		switch {
		case want && err != nil:
			return "roundtrip:fails:" + k.Kind, fmt.Sprintf("sender %v -> receiver %v prev %v: matching key material but decryption failed: %v", k.Sender, k.Recv, k.Prev, err)
		case want && !proto.Equal(msg, blank):
			return "roundtrip:differs:" + k.Kind, fmt.Sprintf("sender %v -> receiver %v: decrypted message differs from the original", k.Sender, k.Recv)
		case !want && err == nil:
			what := "shared secret"
			if k.Sender.N == k.Recv.N && k.Sender.S == k.Recv.S {
				what = "key id"
			}
			return "binding:" + strings.ReplaceAll(what, " ", "-") + ":" + k.Kind, fmt.Sprintf("sender %v -> receiver %v prev %v: decryption succeeded with a different %s", k.Sender, k.Recv, k.Prev, what)
		}
		if want {
			// the same envelope into a result that still holds another message
			// (one buffer reused for successive messages): the result is the
			// sent message, nothing of what was there before
			for _, osz := range sizes {
				dirty, _ := message(k.Msg, osz, k.Seed+1)
				if err := nodeenrollment.DecryptMessage(ctx, ct, source(p, other(k.Side), k.Recv, k.Prev), dirty); err != nil || !proto.Equal(msg, dirty) {
					return "roundtrip:reused-result:" + k.Kind, fmt.Sprintf("sender %v -> receiver %v prev %v: decrypting a %s/%s message into a result that held a %s one gives a different message (err %v)", k.Sender, k.Recv, k.Prev, k.Msg, k.Size, osz, err)
				}
			}
			if k.Prev != nil && !matches(k.Sender, k.Recv) {
				r.Branch("opened-with-previous-key")
			} else {
				r.Branch("opened-with-current-key")
			}
		} else {
			r.Branch("rejected-wrong-key")
		}
	case "mutate":
		mct := mutate(ct, k.Mut)
		if bytes.Equal(mct, ct) {
			r.Outcome("trivial")
			return "", ""
		}
		// a mutated envelope is non-trivial if it still reaches the AEAD open.
		// The envelope's random bytes (the dependency draws its own IV) differ
		// from run to run and, after a flip in a tag byte, can decide whether
		// the rest still parses; the classification is therefore made on a
		// copy whose ciphertext and IV bytes are zeroed, so that the count is
		// the same in every run.
		if bi := new(wrapping.BlobInfo); proto.Unmarshal(mutate(zeroed(ct), k.Mut), bi) != nil || len(bi.Ciphertext) < 12 {
			r.Outcome("trivial")
		}
		if pm := guard(func() { err = nodeenrollment.DecryptMessage(ctx, mct, recvSrc, blank) }); pm != "" {
			return "mutate:panic:" + mutClass(k.Mut), fmt.Sprintf("DecryptMessage panicked on a mutated envelope (%s of a %s/%s message): %s", k.Mut, k.Msg, k.Size, pm)
		}
		if err == nil {
			if !proto.Equal(msg, blank) {
				return "mutate:different-plaintext:" + mutClass(k.Mut), fmt.Sprintf("mutation %s of a %s/%s envelope decrypted to a different plaintext", k.Mut, k.Msg, k.Size)
			}
			r.Branch("mutation-harmless")
		} else {
			r.Branch("mutation-rejected")
		}
	}
	return "", ""
}

func cases(c *engine.Ctx, p *harness.Pool, emit func(kase)) {
	for _, a := range allAgreements {
		for _, b := range allAgreements {
			emit(kase{Kind: "derive", Sender: a, Recv: b})
		}
	}
	// pairings: every sender agreement x receiver agreement x side x message
	for _, mk := range msgKinds {
		for _, sz := range sizes {
			if !c.Thorough() && sz == "4k" && mk != "NodeCredentials" {
				continue
			}
			for _, side := range []string{"node", "server"} {
				for _, a := range allAgreements {
					for _, b := range allAgreements {
						emit(kase{Kind: "pair", Msg: mk, Size: sz, Side: side, Sender: a, Recv: b, Seed: c.Seed})
					}
				}
			}
		}
	}
	// application-supplied producers: same secret, key ids from {"", a, b} on either side
	for _, side := range []string{"node", "server"} {
		for n := 0; n < 2; n++ {
			for si := range customIds {
				for ri := range customIds {
					emit(kase{Kind: "custom-id", Msg: "NodeCredentials", Size: "typical", Side: side, Sender: agreement{n, n, si}, Recv: agreement{n, n, ri}, Seed: c.Seed})
				}
			}
		}
	}
	// previous-key combinations: receiver current x receiver previous x sender
	for _, side := range []string{"node", "server"} {
		for _, a := range allAgreements {
			for _, b := range allAgreements {
				for i := range allAgreements {
					pv := allAgreements[i]
					emit(kase{Kind: "prev", Msg: "NodeCredentials", Size: "typical", Side: side, Sender: a, Recv: b, Prev: &pv, Seed: c.Seed})
				}
			}
		}
	}
	// mutations of one envelope per message kind/size
	a := agreement{0, 0, 0}
	b2 := agreement{1, 1, 1}
	for _, mk := range msgKinds {
		for _, sz := range sizes {
			if sz == "4k" && !(c.Thorough() || mk == "FetchResponse") {
				continue
			}
			msg, _ := message(mk, sz, c.Seed)
			ct, err := nodeenrollment.EncryptMessage(harness.Ctx, msg, source(p, "server", a, nil), nodeenrollment.WithRandomReader(harness.DetRand("enc-iv")))
			if err != nil {
				panic(err)
			}
			for _, prev := range []*agreement{nil, &b2} {
				base := kase{Kind: "mutate", Msg: mk, Size: sz, Side: "server", Sender: a, Recv: a, Prev: prev, Seed: c.Seed}
				if prev != nil && sz != "typical" {
					continue
				}
				step := 1
				if sz == "4k" && !c.Thorough() {
					step = 7 // quick: every 7th bit of the large envelope
				}
				for bit := 0; bit < len(ct)*8; bit += step {
					k := base
					k.Mut = fmt.Sprintf("flip:%d", bit)
					emit(k)
				}
				for n := 0; n < len(ct); n++ {
					if sz == "4k" && !c.Thorough() && n > 300 && n < len(ct)-300 {
						continue
					}
					k := base
					k.Mut = fmt.Sprintf("trunc:%d", n)
					emit(k)
				}
				for n := 0; n <= 40; n++ {
					k := base
					k.Mut = fmt.Sprintf("short:%d", n)
					emit(k)
				}
				for _, f := range []string{"ciphertext", "iv", "hmac", "keyinfo", "wrapped"} {
					k := base
					k.Mut = "drop:" + f
					emit(k)
				}
			}
		}
	}
	// arbitrary envelopes: all byte strings of length 1 and 2
	base := kase{Kind: "mutate", Msg: "NodeCredentials", Size: "typical", Side: "server", Sender: a, Recv: a, Seed: c.Seed}
	for x := 0; x < 256; x++ {
		k := base
		k.Mut = fmt.Sprintf("bytes:%02x", x)
		emit(k)
	}
	for x := 0; x < 65536; x++ {
		k := base
		k.Mut = fmt.Sprintf("bytes:%04x", x)
		emit(k)
	}
}

func run(c *engine.Ctx, r *engine.Report) {
	p := harness.NewPool(c.Seed, 2, 2, 2, 0)
	r.Need("derive", "opened-with-current-key", "opened-with-previous-key", "rejected-wrong-key", "mutation-rejected")
	i := 0
	cases(c, p, func(k kase) {
		i++
		if !c.Mine(i) {
			return
		}
		r.Eval(1)
		before := r.Outcomes["trivial"]
		sig, msg := one(p, k, r)
		if sig != "" {
			r.Violate(sig, msg, k)
			return
		}
		if r.Outcomes["trivial"] == before {
			r.Nontrivial(1)
		}
		if i%4999 == 1 {
			r.Sample(k)
		}
	})
}

func replay(c *engine.Ctx, raw json.RawMessage) (string, bool) {
	var k kase
	if err := json.Unmarshal(raw, &k); err != nil {
		return err.Error(), false
	}
	p := harness.NewPool(k.Seed, 2, 2, 2, 0)
	if k.Kind == "derive" {
		p = harness.NewPool(c.Seed, 2, 2, 2, 0)
	}
	sig, msg := one(p, k, engine.NewReport())
	if sig == "" {
		return fmt.Sprintf("case %+v: holds", k), false
	}
	return fmt.Sprintf("case %+v\n%s: %s", k, sig, msg), true
}

func init() {
	engine.Register(&engine.CheckDef{
		ID:    "C11",
		Level: "exploration",
		Rule: "product of 8 key agreements (2 node keys x 2 server keys x 2 key ids) on the sending and receiving side, both directions, 5 message types x 3 sizes; every receiver current x previous combination (512 per direction; in half of them the previous pair is recorded over an earlier recording under the same key id); every successful open repeated into a result object that still holds another message of each size; application-supplied key producers with key ids from {empty, a, b} on either side of one secret; for one envelope per message kind/size every single-bit flip, every truncation length, every BlobInfo with a ciphertext of 0..40 bytes, field deletions, and every byte string of length 1 and 2 as envelope; " +
			"distinct_nontrivial counts cases (distinct by construction) other than mutated envelopes that no longer parse as a BlobInfo with at least a nonce (those die before the AEAD open and only exercise the no-crash clause)",
		Assumptions: []string{"cryptographic strength of X25519 and AES-GCM is trusted; 'forged' means produced with other pool keys or by mutation", "random multi-byte mutations are not enumerated (all single-bit flips and truncations are)"},
		Shards:      func(c *engine.Ctx) int { return 16 },
		Run:         run,
		Replay:      replay,
	})
}
