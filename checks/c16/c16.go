// Package c16: connection metadata given to the application is exactly what
// the node sent (E4: client state shapes x extra ALPN lists through the real
// Dial and through a hand-built client whose offered list is known exactly).
package c16

import (
	"encoding/json"
	"fmt"
	"reflect"
	"strings"

	"github.com/hashicorp/nodeenrollment"
	"github.com/hashicorp/nodeenrollment/protocol"
	"github.com/hashicorp/nodeenrollment/registration"
	"github.com/hashicorp/nodeenrollment/types"
	vclock "github.com/hashicorp/nodeenrollment/zz_verif/vclock"
	"google.golang.org/protobuf/proto"
	"google.golang.org/protobuf/types/known/structpb"
	"verif/engine"
	"verif/harness"
)

type kase struct {
	Client string `json:"client"` // dial | handbuilt | forged-state
	State  string `json:"state"`
	Extra  string `json:"extra"`
	Seed   int64  `json:"seed"`
	// ListenerOpts: the listener itself is configured with a state and an
	// extra-protocol option of the server's own (one option list shared between
	// the server's upstream dialer and its listener)
	ListenerOpts bool `json:"listener_options,omitempty"`
}

var stateNames = []string{"absent", "empty", "flat", "nested", "4k", "20k", "40k"}
var extraNames = []string{"none", "one", "five", "duplicates", "fetch-like", "preference-like", "auth-like-last", "odd-names", "preference-entry-first"}

var clientKinds = []string{"dial", "dial-first-time", "handbuilt", "handbuilt-preference-first", "handbuilt-preference-between-chunks", "forged-state", "forged-state+skip", "swapped-state", "swapped-state+skip", "unsigned-state", "unsigned-state+skip"}

func stateOf(n string) *structpb.Struct {
	switch n {
	case "absent":
		return nil
	case "empty":
		return &structpb.Struct{}
	case "flat":
		return harness.Struct(map[string]any{"a": "b", "n": 3.0, "t": true, "z": nil})
	case "nested":
		return harness.Struct(map[string]any{"l1": map[string]any{"l2": map[string]any{"l3": []any{1.0, "x", map[string]any{"deep": false}}}}})
	case "4k":
		return harness.Struct(map[string]any{"blob": strings.Repeat("s", 4096)})
	case "20k":
		return harness.Struct(map[string]any{"blob": strings.Repeat("s", 20*1024)})
	case "40k":
		return harness.Struct(map[string]any{"blob": strings.Repeat("s", 40*1024)})
	}
	panic(n)
}

// prefFirst is replaced per world by a *valid* certificate-preference entry
// that precedes further extra protocols.
var prefFirst = []string{"", "after-the-preference", "and-another"}

func extrasOf(n string) []string {
	switch n {
	case "preference-entry-first":
		return prefFirst
	case "none":
		return nil
	case "one":
		return []string{"app-proto"}
	case "five":
		return []string{"p1", "p2", "p3", "p4", "p5"}
	case "duplicates":
		return []string{"dup", "dup", "other", "dup"}
	case "fetch-like":
		return []string{"app", nodeenrollment.FetchNodeCredsNextProtoV1Prefix + "00-QUJD"}
	case "preference-like":
		return []string{"app", "x" + nodeenrollment.CertificatePreferenceV1Prefix + "abc", "certificate-preference"}
	case "auth-like-last":
		return []string{"app", "v1-nodee-authenticate-nodeX"}
	case "odd-names":
		return []string{"h2", "http/1.1", "__AUTH__", "__UNAUTH__", "éè", strings.Repeat("L", 255)}
	}
	panic(n)
}

type world struct {
	seed int64
	st   *harness.MemStore
	node *harness.Enrolled
}

func newWorld(seed int64) *world {
	vclock.Reset()
	w := &world{seed: seed, st: harness.NewMemStore()}
	harness.InitRoots(w.st)
	var err error
	w.node, err = harness.Enroll(w.st, harness.NewCertKey("K1", seed), harness.NewEncKey("E1", seed), harness.Bytes("n1", 32), nil, nil)
	if err != nil {
		panic(err)
	}
	prefFirst = []string{nodeenrollment.CertificatePreferenceV1Prefix + harness.CaKeyId(w.node.Creds.CertificateBundles[0].CaCertificateDer), "after-the-preference", "and-another"}
	return w
}

func sameState(a, b *structpb.Struct) bool {
	if a == nil {
		a = &structpb.Struct{}
	}
	if b == nil {
		b = &structpb.Struct{}
	}
	if len(a.Fields) == 0 && len(b.Fields) == 0 {
		return true
	}
	return proto.Equal(a, b)
}

func stripPref(in []string) []string {
	var out []string
	for _, p := range in {
		if !strings.HasPrefix(p, nodeenrollment.CertificatePreferenceV1Prefix) {
			out = append(out, p)
		}
	}
	return out
}

func (w *world) one(k kase, r *engine.Report) (string, string) {
	st, extras := stateOf(k.State), extrasOf(k.Extra)
	var offered []string // exact offered list, when known
	var dialErr error
	var lopt []nodeenrollment.Option
	if k.ListenerOpts {
		lopt = []nodeenrollment.Option{nodeenrollment.WithState(harness.Struct(map[string]any{"this-is": "the server's own state"})), nodeenrollment.WithExtraAlpnProtos([]string{"servers-own-proto"})}
	}
	srv := w.st.Clone()
	rs, err := harness.Serve(harness.ServerConfig{Storage: srv, Options: lopt, Unix: true}, func(addr string) {
		switch k.Client {
		case "dial-first-time":
			// a node the operator has authorized but that has not fetched its
			// credentials yet: this one Dial fetches them and then authenticates,
			// and what it supplies belongs to the authentication it ends with
			nodeStore := harness.NewMemStore()
			creds, e := types.NewNodeCredentials(harness.Ctx, nodeStore)
			if e != nil {
				panic(e)
			}
			freq, e := creds.CreateFetchNodeCredentialsRequest(harness.Ctx)
			if e != nil {
				panic(e)
			}
			if _, e := registration.AuthorizeNode(harness.Ctx, srv, freq); e != nil {
				panic(e)
			}
			var o []nodeenrollment.Option
			if st != nil {
				o = append(o, nodeenrollment.WithState(st))
			}
			if extras != nil {
				o = append(o, nodeenrollment.WithExtraAlpnProtos(extras))
			}
			conn, e := protocol.Dial(harness.Ctx, nodeStore, addr, o...)
			dialErr = e
			if conn != nil {
				conn.Close()
			}
		case "dial":
			var o []nodeenrollment.Option
			if st != nil {
				o = append(o, nodeenrollment.WithState(st))
			}
			if extras != nil {
				o = append(o, nodeenrollment.WithExtraAlpnProtos(extras))
			}
			conn, e := protocol.Dial(harness.Ctx, w.node.Store.Clone(), addr, o...)
			dialErr = e
			if conn != nil {
				conn.Close()
			}
		default:
			nonce := harness.Bytes("c16-nonce", 32)
			req := &types.GenerateServerCertificatesRequest{CertificatePublicKeyPkix: w.node.K.Pkix, Nonce: nonce, NonceSignature: w.node.K.Sign(nonce)}
			if st != nil {
				req.ClientState, _ = proto.Marshal(st)
				req.ClientStateSignature = w.node.K.Sign(req.ClientState)
				switch strings.TrimSuffix(k.Client, "+skip") {
				case "handbuilt-preference-first", "handbuilt-preference-between-chunks":
					// honest: only the position of the preference entry differs
				case "forged-state":
					// signed by a key that is not the node's
					req.ClientStateSignature = harness.NewCertKey("forger", w.seed).Sign(req.ClientState)
				case "swapped-state":
					// the node's own signature, over a different state
					other, _ := structpb.NewStruct(map[string]any{"role": "worker"})
					ob, _ := proto.Marshal(other)
					req.ClientStateSignature = w.node.K.Sign(ob)
				case "unsigned-state":
					req.ClientStateSignature = nil
				}
				// the flag only the server's own fetch path may set
				req.SkipVerification = strings.HasSuffix(k.Client, "+skip")
			}
			b := w.node.Creds.CertificateBundles[0]
			c := &harness.AuthClient{Request: req, Chain: [][]byte{b.CertificateDer, b.CaCertificateDer}, Key: w.node.K.Priv, Preference: harness.CaKeyId(b.CaCertificateDer), ExtraProtos: extras}
			switch k.Client {
			case "handbuilt-preference-first":
				c.PrefPos = 1
			case "handbuilt-preference-between-chunks":
				c.PrefPos = 2
			}
			offered = c.NextProtos()
			conn, e := c.Connect(addr)
			dialErr = e
			if conn != nil {
				conn.Close()
			}
		}
	})
	defer harness.CloseAll(rs)
	if err != nil {
		r.InfraError(err.Error())
		return "", ""
	}
	desc := fmt.Sprintf("client=%s state=%s extra=%s listener-options=%v", k.Client, k.State, k.Extra, k.ListenerOpts)
	var got *harness.AcceptResult
	for i := range rs {
		if rs[i].Panic != "" {
			return "panic", desc + ": Accept panicked: " + rs[i].Panic
		}
		if rs[i].Authenticated {
			got = &rs[i]
		}
	}
	if got == nil {
		if unverifiable(k.Client) {
			r.Branch("forged-state-rejected")
			r.Branch("rejected:" + k.Client)
		} else {
			r.Outcome("not-authenticated:" + k.State + ":" + k.Extra + fmt.Sprintf(":%v", dialErr != nil))
			r.Outcome("trivial")
		}
		return "", ""
	}
	if unverifiable(k.Client) && st != nil && len(st.Fields) > 0 {
		if cs := got.Conn.(*protocol.Conn).ClientState(); cs != nil && len(cs.Fields) > 0 {
			return "forged-state-delivered:" + k.Client, desc + ": the application was handed a client state whose signature does not verify"
		}
		return "forged-state-accepted:" + k.Client, desc + ": a connection was returned although the client state signature does not verify"
	}
	pc := got.Conn.(*protocol.Conn)
	if !sameState(pc.ClientState(), st) {
		return "state-differs:" + k.State, fmt.Sprintf("%s: ClientState() = %v, the node dialled with %v", desc, pc.ClientState(), st)
	}
	if (st == nil || len(st.Fields) == 0) && pc.ClientState() != nil && len(pc.ClientState().Fields) > 0 {
		return "state-invented", desc + ": a client state is reported although none was supplied"
	}
	list := pc.ClientNextProtos()
	if offered != nil {
		want := stripPref(offered)
		if !reflect.DeepEqual(list, want) {
			return "protos-differ:" + firstDiff(list, want), fmt.Sprintf("%s: ClientNextProtos() has %d entries %s, the client offered %d (minus certificate preference) %s", desc, len(list), preview(list), len(want), preview(want))
		}
	} else {
		// real dialer: request chunks first, then the extras, in order
		extras = stripPref(extras)
		n := len(list) - len(extras)
		if n < 1 {
			return "protos-differ:too-short", fmt.Sprintf("%s: ClientNextProtos() = %s lacks the offered entries", desc, preview(list))
		}
		for i, p := range list[:n] {
			if !strings.HasPrefix(p, nodeenrollment.AuthenticateNodeNextProtoV1Prefix) {
				return "protos-differ:entry-" + fmt.Sprint(i), fmt.Sprintf("%s: ClientNextProtos()[%d] = %q is not part of the request the dialer offered first (%s)", desc, i, p, preview(list))
			}
		}
		if !reflect.DeepEqual(append([]string{}, list[n:]...), append([]string{}, extras...)) && len(extras) > 0 {
			return "protos-differ:extras", fmt.Sprintf("%s: ClientNextProtos() ends with %v, the node offered the extra protocols %v", desc, list[n:], extras)
		}
	}
	// the returned list is a copy
	if len(list) > 0 {
		list[0] = "scribbled"
		if again := pc.ClientNextProtos(); len(again) > 0 && again[0] == "scribbled" {
			return "protos-not-a-copy", desc + ": modifying the returned list changes what the connection reports"
		}
	}
	r.Branch("authenticated:" + k.Client)
	if st != nil && len(st.Fields) > 0 {
		r.Branch("state-delivered")
	}
	if len(extras) > 0 {
		r.Branch("extras-delivered")
	}
	return "", ""
}

// unverifiable reports the client kinds whose state signature cannot verify.
func unverifiable(client string) bool {
	return !strings.HasPrefix(client, "dial") && !strings.HasPrefix(client, "handbuilt")
}

func firstDiff(a, b []string) string {
	for i := 0; i < len(a) && i < len(b); i++ {
		if a[i] != b[i] {
			if a[i] == "" {
				return "empty-entry"
			}
			return "entry"
		}
	}
	return "length"
}

func preview(l []string) string {
	var p []string
	for i, s := range l {
		if i >= 4 {
			p = append(p, "...")
			break
		}
		if len(s) > 40 {
			s = s[:40] + "~"
		}
		p = append(p, fmt.Sprintf("%q", s))
	}
	return "[" + strings.Join(p, " ") + "]"
}

func run(c *engine.Ctx, r *engine.Report) {
	r.Need("authenticated:dial", "authenticated:handbuilt", "state-delivered", "extras-delivered", "forged-state-rejected", "rejected:forged-state+skip", "rejected:swapped-state+skip", "rejected:unsigned-state")
	w := newWorld(c.Seed)
	i := 0
	for _, client := range clientKinds {
		for _, s := range stateNames {
			for _, e := range extraNames {
				if unverifiable(client) && (s == "absent" || s == "empty") {
					continue
				}
				for _, lo := range []bool{false, true} {
					i++
					if !c.Mine(i) {
						continue
					}
					k := kase{Client: client, State: s, Extra: e, Seed: c.Seed, ListenerOpts: lo}
					r.Eval(1)
					before := r.Outcomes["trivial"]
					if sig, msg := w.one(k, r); sig != "" {
						r.Violate(sig, msg, k)
						continue
					}
					if r.Outcomes["trivial"] == before {
						r.Nontrivial(1)
					}
					if i%17 == 3 {
						r.Sample(k)
					}
				}
			}
		}
	}
}

func replay(c *engine.Ctx, raw json.RawMessage) (string, bool) {
	var k kase
	if err := json.Unmarshal(raw, &k); err != nil {
		return err.Error(), false
	}
	sig, msg := newWorld(k.Seed).one(k, engine.NewReport())
	if sig == "" {
		return fmt.Sprintf("case %+v: holds", k), false
	}
	return sig + ": " + msg, true
}

func init() {
	engine.Register(&engine.CheckDef{
		ID:    "C16",
		Level: "exploration",
		Rule: "client state {absent, empty, flat, nested 3 levels, 4 KiB, 20 KiB, 40 KiB} x extra ALPN lists {none, one, five, duplicates, fetch-prefix-like, preference-like, auth-like, odd names incl. the split listener's reserved ones and a 255-byte name} through the real Dial (of an enrolled node, and of an authorized node whose first Dial fetches its credentials and then authenticates) and through a hand-built client whose offered list is known exactly (certificate-preference entry last, first, and between the request's chunks), plus the same with a state signature that cannot verify {signed by another key, the node's signature over a different state, absent} each with and without the request's skip_verification flag set by the client; every case against a listener without options and against one whose own option list carries a state and an extra-protocol option; oracle evaluated only on authenticated connections; " +
			"distinct_nontrivial counts cases (distinct by construction) whose connection authenticated (or, for forged state, was judged)",
		Assumptions: []string{"an empty client state and an absent one are treated as the same value (both carry no fields)", "states too large for a ClientHello do not authenticate and are counted, not judged"},
		Shards:      func(c *engine.Ctx) int { return 8 },
		Run:         run,
		Replay:      replay,
	})
}
