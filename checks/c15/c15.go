// Package c15: concurrent handshakes are isolated from one another (E2 with
// harness seams: every interleaving, within the preemption bound, of handler
// threads that each run one real InterceptingListener.Accept, with scheduling
// points at every storage call, at the entry and exit of the fetch and
// certificate functions and at the base listener's Accept; each connection's
// outcome is compared with its outcome when handled alone. R: the same bodies
// free-running under -race).
package c15

import (
	"bytes"
	"context"
	"crypto/rand"
	"crypto/tls"
	"encoding/base64"
	"encoding/json"
	"errors"
	"fmt"
	"net"
	"os"
	"path/filepath"
	"runtime"
	"sort"
	"strconv"
	"strings"
	"sync"
	"time"

	"github.com/hashicorp/go-hclog"
	"github.com/hashicorp/nodeenrollment"
	"github.com/hashicorp/nodeenrollment/protocol"
	"github.com/hashicorp/nodeenrollment/registration"
	nodetls "github.com/hashicorp/nodeenrollment/tls"
	"github.com/hashicorp/nodeenrollment/types"
	vclock "github.com/hashicorp/nodeenrollment/zz_verif/vclock"
	vrt "github.com/hashicorp/nodeenrollment/zz_verif/vrt"
	"google.golang.org/protobuf/proto"
	"verif/engine"
	"verif/harness"
)

// client kinds
const (
	kFetchAuthorized = "fetch-authorized"
	kFetchUnknown    = "fetch-unknown"
	kToken           = "token-enrollment"
	kAuth            = "authenticate"
	kAuthUnknown     = "authenticate-unregistered"
	// a registered node's (replayed) signed request, presented with a self-signed
	// certificate: passes the nonce check, must fail the certificate check
	kAuthReplay = "authenticate-replayed-request-self-signed"
	// a client of the application's own TLS configuration (passes through unauthenticated)
	kBase = "base-tls-passthrough"
	// no client: this handler's call of the base listener's Accept fails once
	// with an error that is not net.ErrClosed
	kAcceptErr = "base-accept-error"
)

var errBaseAccept = errors.New("accept: too many open files")

var sockSeq int64

var kinds = []string{kFetchAuthorized, kFetchUnknown, kToken, kAuth, kAuthUnknown, kAuthReplay}

type scenario struct {
	Clients []string `json:"clients"`
	OptLen  int      `json:"option_len"`
	Spare   int      `json:"option_spare_capacity"`
	// RandSeam: the option list carries an application-supplied random source
	// (it becomes the handshake's tls.Config.Rand); its reads between the end of
	// the fetch / certificate function and the end of the handshake are
	// scheduling points, so that interleavings *inside* the TLS layer's use of
	// the configuration a handshake was given are explored
	RandSeam bool `json:"rand_seam,omitempty"`
}

func (s scenario) String() string {
	if s.RandSeam {
		return fmt.Sprintf("clients=%v options(len=%d,spare=%d)+random-source-seam", s.Clients, s.OptLen, s.Spare)
	}
	return fmt.Sprintf("clients=%v options(len=%d,spare=%d)", s.Clients, s.OptLen, s.Spare)
}

type world struct {
	seed int64
	base *harness.MemStore
	// per client slot i (0..2) and kind: identities
	auth   [3]*harness.Enrolled // registered nodes for kAuth
	fetchA [3]*harness.CertKey  // authorized, not yet fetched
	fetchE [3]*harness.EncKey
	fetchN [3][]byte
	unk    [3]*harness.CertKey
	unkE   [3]*harness.EncKey
	tokK   [3]*harness.CertKey
	tokE   [3]*harness.EncKey
	tok    [3]*harness.Token
}

func newWorld(seed int64) *world {
	vclock.Reset()
	w := &world{seed: seed, base: harness.NewMemStore()}
	harness.InitRoots(w.base)
	for i := 0; i < 3; i++ {
		var err error
		w.auth[i], err = harness.Enroll(w.base, harness.NewCertKey(fmt.Sprintf("auth%d", i), seed), harness.NewEncKey(fmt.Sprintf("authE%d", i), seed), harness.Bytes(fmt.Sprintf("an%d", i), 32), nil, nil)
		if err != nil {
			panic(err)
		}
		w.fetchA[i], w.fetchE[i], w.fetchN[i] = harness.NewCertKey(fmt.Sprintf("fa%d", i), seed), harness.NewEncKey(fmt.Sprintf("faE%d", i), seed), harness.Bytes(fmt.Sprintf("fn%d", i), 32)
		if _, err := registration.AuthorizeNode(harness.Ctx, w.base, harness.SignedRequest(harness.Info(w.fetchA[i], w.fetchE[i], w.fetchN[i]), w.fetchA[i])); err != nil {
			panic(err)
		}
		w.unk[i], w.unkE[i] = harness.NewCertKey(fmt.Sprintf("unk%d", i), seed), harness.NewEncKey(fmt.Sprintf("unkE%d", i), seed)
		w.tokK[i], w.tokE[i] = harness.NewCertKey(fmt.Sprintf("tk%d", i), seed), harness.NewEncKey(fmt.Sprintf("tkE%d", i), seed)
		w.tok[i], err = harness.CreateToken(w.base, fmt.Sprintf("T%d", i), seed, nodeenrollment.WithState(harness.Struct(map[string]any{"token-state-of-client": float64(i)})))
		if err != nil {
			panic(err)
		}
	}
	return w
}

// yieldingListener makes the base Accept a scheduling point and records which
// connection each handler thread obtained. Clients connect one after the other
// before any Accept, and the kernel's accept queue is FIFO, so the k-th
// accepted connection is the k-th client.
type yieldingListener struct {
	net.Listener
	mu    sync.Mutex
	order []int // client index of the k-th connection
	next  int
	got   map[int]int // handler thread id -> client index
	// failNext base Accept calls fail (the slot of the scenario they stand for is failSlot)
	failNext, failSlot int
}

func (y *yieldingListener) Accept() (net.Conn, error) {
	vrt.Yield("base.Accept")
	y.mu.Lock()
	defer y.mu.Unlock() // accept and numbering are one step
	if y.failNext > 0 {
		y.failNext--
		y.got[handlerID()] = y.failSlot
		return nil, errBaseAccept
	}
	c, err := y.Listener.Accept()
	if err == nil {
		ci := -1
		if y.next < len(y.order) {
			ci = y.order[y.next]
		}
		y.next++
		y.got[handlerID()] = ci
	}
	return c, err
}

// seamReader is the application's random source: crypto/rand, with a
// scheduling point before a read made by a handler whose fetch / certificate
// function has returned (the TLS layer drawing its randoms and key share).
type seamReader struct {
	mu    sync.Mutex
	armed map[int]bool
}

func (s *seamReader) arm(on bool) {
	s.mu.Lock()
	s.armed[handlerID()] = on
	s.mu.Unlock()
}

func (s *seamReader) Read(p []byte) (int, error) {
	s.mu.Lock()
	on := s.armed[handlerID()]
	s.mu.Unlock()
	// (one-byte reads are the standard library's randutil.MaybeReadByte, made
	// or not made at random: they cannot be scheduling points of a replayable search)
	if on && len(p) > 1 {
		vrt.Yield("rand.read")
	}
	return rand.Read(p)
}

// handlerID identifies the calling handler: the managed thread id under the
// scheduler, the goroutine id when free-running.
func handlerID() int {
	if id := vrt.CurrentID(); id >= 0 {
		return id
	}
	var buf [64]byte
	n := runtime.Stack(buf[:], false)
	f := bytes.Fields(buf[:n])
	id, _ := strconv.Atoi(string(f[1]))
	return 1000000 + id
}

type obs struct {
	mu      sync.Mutex
	server  map[int]string // client -> server-side result
	client  map[int]string // client -> client-side result
	records map[int]string // client -> record effect
}

// fetchClient performs a fetch handshake over conn and classifies the answer.
func (w *world) fetchClient(conn net.Conn, k *harness.CertKey, e *harness.EncKey, nonce []byte) string {
	req := harness.SignedRequest(harness.Info(k, e, nonce), k)
	raw, _ := proto.Marshal(req)
	protos, err := nodetls.BreakIntoNextProtos(nodeenrollment.FetchNodeCredsNextProtoV1Prefix, base64.RawStdEncoding.EncodeToString(raw))
	if err != nil {
		panic(err)
	}
	tc := tls.Client(conn, &tls.Config{MinVersion: tls.VersionTLS13, InsecureSkipVerify: true, NextProtos: protos,
		GetClientCertificate: func(*tls.CertificateRequestInfo) (*tls.Certificate, error) {
			return &tls.Certificate{Certificate: [][]byte{harness.SelfSignedCert(k, nodeenrollment.CommonDnsName)}, PrivateKey: k.Priv}, nil
		}})
	tc.SetDeadline(time.Now().Add(60 * time.Second))
	if err := tc.Handshake(); err != nil {
		return "handshake-failed"
	}
	cn := tc.ConnectionState().PeerCertificates[0].Subject.CommonName
	if cn == nodeenrollment.CommonDnsName {
		return "not-authorized"
	}
	b, err := base64.RawStdEncoding.DecodeString(cn)
	if err != nil {
		return "undecodable-answer"
	}
	resp := new(types.FetchNodeCredentialsResponse)
	if proto.Unmarshal(b, resp) != nil {
		return "undecodable-answer"
	}
	got, err := harness.OpenResponse(resp, k, e)
	if err != nil {
		return "credentials-not-for-this-node"
	}
	if string(got.RegistrationNonce) != string(nonce) {
		return "credentials-with-foreign-nonce"
	}
	return "credentials-for-this-node"
}

func clientState(i int) map[string]any {
	return map[string]any{"client": float64(i), "tag": fmt.Sprintf("x%d", i)}
}
func extras(i int) []string { return []string{fmt.Sprintf("proto-of-client-%d", i), "shared"} }

func (w *world) authClient(conn net.Conn, i int, registered bool) string {
	var c *harness.AuthClient
	nonce := harness.Bytes(fmt.Sprintf("c15-nonce-%d", i), 32)
	if registered {
		n := w.auth[i]
		st, _ := proto.Marshal(harness.Struct(clientState(i)))
		b := n.Creds.CertificateBundles[0]
		c = &harness.AuthClient{Request: &types.GenerateServerCertificatesRequest{CertificatePublicKeyPkix: n.K.Pkix, Nonce: nonce, NonceSignature: n.K.Sign(nonce), ClientState: st, ClientStateSignature: n.K.Sign(st)},
			Chain: [][]byte{b.CertificateDer, b.CaCertificateDer}, Key: n.K.Priv, Preference: harness.CaKeyId(b.CaCertificateDer), ExtraProtos: extras(i)}
	} else {
		k := w.unk[i]
		c = &harness.AuthClient{Request: &types.GenerateServerCertificatesRequest{CertificatePublicKeyPkix: k.Pkix, Nonce: nonce, NonceSignature: k.Sign(nonce)},
			Chain: [][]byte{harness.SelfSignedCert(k, "x")}, Key: k.Priv, ExtraProtos: extras(i)}
	}
	tc := tls.Client(conn, &tls.Config{MinVersion: tls.VersionTLS13, InsecureSkipVerify: true, NextProtos: c.NextProtos(),
		GetClientCertificate: func(*tls.CertificateRequestInfo) (*tls.Certificate, error) {
			return &tls.Certificate{Certificate: c.Chain, PrivateKey: c.Key}, nil
		}})
	tc.SetDeadline(time.Now().Add(60 * time.Second))
	if err := tc.Handshake(); err != nil {
		return "handshake-failed"
	}
	// wait for the server's verdict: it closes the connection either way
	var b [1]byte
	tc.Read(b[:])
	return "handshake-completed"
}

// replayClient presents node i's genuine signed request with a self-signed certificate.
func (w *world) replayClient(conn net.Conn, i int) string {
	n := w.auth[i]
	nonce := harness.Bytes(fmt.Sprintf("c15-replay-nonce-%d", i), 32)
	// (the replayed request carries the node's genuinely signed state as well)
	rst, _ := proto.Marshal(harness.Struct(clientState(i)))
	c := &harness.AuthClient{Request: &types.GenerateServerCertificatesRequest{CertificatePublicKeyPkix: n.K.Pkix, Nonce: nonce, NonceSignature: n.K.Sign(nonce), ClientState: rst, ClientStateSignature: n.K.Sign(rst)}, ExtraProtos: extras(i)}
	outsider := w.unk[i]
	chain := [][]byte{harness.SelfSignedCertWithSKI(outsider, n.K.Pkix)}
	tc := tls.Client(conn, &tls.Config{MinVersion: tls.VersionTLS13, InsecureSkipVerify: true, NextProtos: c.NextProtos(),
		GetClientCertificate: func(*tls.CertificateRequestInfo) (*tls.Certificate, error) {
			return &tls.Certificate{Certificate: chain, PrivateKey: outsider.Priv}, nil
		}})
	tc.SetDeadline(time.Now().Add(60 * time.Second))
	if err := tc.Handshake(); err != nil {
		return "handshake-failed"
	}
	var b [1]byte
	tc.Read(b[:])
	return "handshake-completed"
}

// body runs the scenario: one listener, one handler thread per client.
// It returns after spawning; `wait` joins the unmanaged client goroutines.
func (w *world) body(sc scenario) (*obs, func(), *harness.MemStore) {
	o := &obs{server: map[int]string{}, client: map[int]string{}, records: map[int]string{}}
	st := w.base.Clone()
	st.Hook = func(call, kind, id string) { vrt.Yield("store." + call + "." + kind) }
	// the application's option slice: OptLen options, Spare unused capacity
	opts := make([]nodeenrollment.Option, sc.OptLen, sc.OptLen+sc.Spare)
	for i := range opts {
		// the application's list may well contain WithState (a fresh value per execution)
		opts[i] = []nodeenrollment.Option{nodeenrollment.WithState(harness.Struct(map[string]any{"listener-wide": "state"})), nodeenrollment.WithLogger(hclog.NewNullLogger()),
			nodeenrollment.WithMaximumServerLedActivationTokenLifetime(time.Hour), nodeenrollment.WithNotBeforeClockSkew(-5 * time.Minute),
			// "use the default" spelled out, as an unset configuration value would be
			nodeenrollment.WithCertificateLifetime(0)}[i%5]
	}
	seam := &seamReader{armed: map[int]bool{}}
	if sc.RandSeam {
		opts = append(opts, nodeenrollment.WithRandomReader(seam))
	}
	// unix socket: no ephemeral ports to exhaust over many thousand executions
	sockSeq++
	sockDir := filepath.Join(os.TempDir(), fmt.Sprintf("vf15-%d", os.Getpid()))
	os.MkdirAll(sockDir, 0o700)
	sockPath := filepath.Join(sockDir, fmt.Sprintf("s%d.sock", sockSeq))
	os.Remove(sockPath)
	inner, err := net.Listen("unix", sockPath)
	if err != nil {
		panic(err)
	}
	yl := &yieldingListener{Listener: inner, got: map[int]int{}}
	var baseTLS *tls.Config
	for i, kind := range sc.Clients {
		if kind == kBase {
			bk := harness.NewCertKey("c15-app", w.seed)
			baseTLS = &tls.Config{Certificates: []tls.Certificate{{Certificate: [][]byte{harness.SelfSignedCert(bk, "app")}, PrivateKey: bk.Priv}}, NextProtos: []string{"h2"}, MinVersion: tls.VersionTLS12}
		}
		if kind == kAcceptErr {
			yl.failNext, yl.failSlot = 1, i
		}
	}
	ln, err := protocol.NewInterceptingListener(&protocol.InterceptingListenerConfiguration{
		Context: harness.Ctx, Storage: st, BaseListener: yl, Options: opts, BaseTlsConfiguration: baseTLS,
		FetchCredsFunc: func(ctx2 context.Context, s nodeenrollment.Storage, req *types.FetchNodeCredentialsRequest, opt ...nodeenrollment.Option) (*types.FetchNodeCredentialsResponse, error) {
			vrt.Yield("fetch.enter")
			r, err := registration.FetchNodeCredentials(ctx2, s, req, opt...)
			vrt.Yield("fetch.exit")
			seam.arm(true)
			return r, err
		},
		GenerateServerCertificatesFunc: func(ctx2 context.Context, s nodeenrollment.Storage, req *types.GenerateServerCertificatesRequest, opt ...nodeenrollment.Option) (*types.GenerateServerCertificatesResponse, error) {
			vrt.Yield("generate.enter")
			r, err := nodetls.GenerateServerCertificates(ctx2, s, req, opt...)
			vrt.Yield("generate.exit")
			seam.arm(true)
			return r, err
		},
	})
	if err != nil {
		panic(err)
	}
	// connect all clients first, in order: the kernel's accept queue is FIFO
	conns := make([]net.Conn, len(sc.Clients))
	for i, kind := range sc.Clients {
		if kind == "" || kind == kAcceptErr {
			continue
		}
		c, err := net.DialTimeout("unix", sockPath, 10*time.Second)
		if err != nil {
			panic(err)
		}
		yl.order = append(yl.order, i)
		conns[i] = c
	}
	var cwg sync.WaitGroup
	for i, kind := range sc.Clients {
		i, kind := i, kind
		if kind == "" || kind == kAcceptErr {
			continue
		}
		cwg.Add(1)
		go func() {
			defer cwg.Done()
			defer conns[i].Close()
			var res string
			switch kind {
			case kFetchAuthorized:
				res = w.fetchClient(conns[i], w.fetchA[i], w.fetchE[i], w.fetchN[i])
			case kFetchUnknown:
				res = w.fetchClient(conns[i], w.unk[i], w.unkE[i], harness.Bytes(fmt.Sprintf("un%d", i), 32))
			case kToken:
				res = w.fetchClient(conns[i], w.tokK[i], w.tokE[i], w.tok[i].Bytes)
			case kAuth:
				res = w.authClient(conns[i], i, true)
			case kAuthUnknown:
				res = w.authClient(conns[i], i, false)
			case kAuthReplay:
				res = w.replayClient(conns[i], i)
			case kBase:
				tc := tls.Client(conns[i], &tls.Config{MinVersion: tls.VersionTLS12, InsecureSkipVerify: true, NextProtos: []string{"h2", fmt.Sprintf("app-proto-of-client-%d", i)}})
				tc.SetDeadline(time.Now().Add(60 * time.Second))
				if err := tc.Handshake(); err != nil {
					res = "handshake-failed"
				} else {
					var b [1]byte
					tc.Read(b[:])
					res = "handshake-completed"
				}
			}
			o.mu.Lock()
			o.client[i] = res
			o.mu.Unlock()
		}()
	}

	for _, kind := range sc.Clients {
		if kind == "" {
			continue
		}

		vrt.Go(func() {

			res := harness.AcceptOnce(ln)
			seam.arm(false)
			yl.mu.Lock()
			ci, ok := yl.got[handlerID()]
			yl.mu.Unlock()
			if !ok {
				ci = -1
			}
			var s string
			switch {
			case res.Panic != "":
				s = "panic: " + res.Panic
			case res.Err != nil && strings.Contains(res.Err.Error(), "fetch handled"):
				s = "fetch-handled"
			case res.Err != nil:
				s = fmt.Sprintf("rejected(temporary=%v)", res.Temporary)
			case res.Authenticated:
				st := "<nil>"
				if res.State != nil {
					b, _ := json.Marshal(res.State.AsMap())
					st = string(b)
				}
				var ps []string
				for _, p := range res.NextProtos {
					if !strings.HasPrefix(p, nodeenrollment.AuthenticateNodeNextProtoV1Prefix) {
						ps = append(ps, p)
					}
				}
				s = fmt.Sprintf("authenticated state=%s protos=%v peer=%s", st, ps, harness.KeyIdOf(res.PeerKeyPkix)[:12])
			default:
				// what the connection object reports belongs to this connection too
				st := "<nil>"
				if res.State != nil {
					b, _ := json.Marshal(res.State.AsMap())
					st = string(b)
				}
				s = fmt.Sprintf("unauthenticated-connection state=%s protos=%v", st, res.NextProtos)
			}
			if res.Conn != nil {
				res.Conn.Close()
			}
			o.mu.Lock()
			o.server[ci] = s
			o.mu.Unlock()
		})
	}
	wait := func() {
		cwg.Wait()
		inner.Close()
		os.Remove(sockPath)
		// record effects per client
		for i, kind := range sc.Clients {
			var k *harness.CertKey
			switch kind {
			case kToken:
				k = w.tokK[i]
			case kFetchUnknown, kAuthUnknown:
				k = w.unk[i]
			default:
				continue
			}
			n := st.NodeInfo(k.KeyId)
			switch {
			case n == nil:
				o.records[i] = "no-record"
			default:
				b, _ := json.Marshal(n.State.AsMap())
				o.records[i] = "record state=" + string(b)
			}
		}
	}

	return o, wait, st
}

func render(o *obs, i int) string {
	return fmt.Sprintf("server:{%s} client:{%s} storage:{%s}", o.server[i], o.client[i], o.records[i])
}

type replayData struct {
	Scenario scenario `json:"scenario"`
	Choices  []int    `json:"choices"`
	Bound    int      `json:"bound"`
	Seed     int64    `json:"seed"`
}

func (w *world) solo(sc scenario) []string {
	var out []string
	for i := range sc.Clients {
		// the same client, in the same slot, alone on the same listener configuration
		single := scenario{Clients: make([]string, len(sc.Clients)), OptLen: sc.OptLen, Spare: sc.Spare, RandSeam: sc.RandSeam}
		single.Clients[i] = sc.Clients[i]
		var o *obs
		var wait func()
		x := vrt.Run(nil, vrt.Options{}, func() { o, wait, _ = w.body(single) })
		if x.Failure != "" {
			panic("solo run failed: " + x.Failure)
		}
		wait()
		out = append(out, render(o, i))
	}
	return out
}

func (w *world) dfsConfig(sc scenario, c *engine.Ctx, bound int, solo []string) engine.DFSConfig {
	type pack struct {
		o    *obs
		wait func()
	}
	return engine.DFSConfig{
		Name: sc.String(), Bound: bound, Deadline: c.Deadline, MaxSteps: 2000, Watchdog: 150 * time.Second,
		Body: func() any {
			o, wait, _ := w.body(sc)
			return pack{o, wait}
		},
		Check: func(x *vrt.Execution, ob any) string {
			p := ob.(pack)
			p.wait()
			for i := range sc.Clients {
				if got := render(p.o, i); got != solo[i] {
					return fmt.Sprintf("connection %d (%s) was influenced by the others: handled concurrently {%s}, handled alone {%s}", i, sc.Clients[i], got, solo[i])
				}
			}
			return ""
		},
		Outcome: func(x *vrt.Execution, ob any) string {
			if x.Failure != "" {
				return x.FailKind
			}
			return "isolated"
		},
	}
}

func scenarios(c *engine.Ctx) []scenario {
	var out []scenario
	shapes := [][2]int{{0, 0}, {2, 0}, {0, 4}, {2, 4}, {1, 1}}
	if c.Thorough() {
		shapes = nil
		for _, l := range []int{0, 1, 2} {
			for _, s := range []int{0, 1, 4} {
				shapes = append(shapes, [2]int{l, s})
			}
		}
	}
	// longer option lists: a copy made with append() can round its capacity up,
	// so exact-capacity input slices of every length 3..9 are shapes of their own
	for l := 3; l <= 9; l++ {
		shapes = append(shapes, [2]int{l, 0})
	}
	if !c.Thorough() {
		// two overlapping polls of nodes that are not yet authorized (the quick
		// pair filter below leaves this pair out; the thorough tier has it in every shape)
		out = append(out, scenario{Clients: []string{kFetchUnknown, kFetchUnknown}, OptLen: 1, Spare: 1})
	}
	// every kind of option the harness puts into the application's list (five), with spare capacity
	out = append(out, scenario{Clients: []string{kAuth, kAuth}, OptLen: 5, Spare: 1}, scenario{Clients: []string{kToken, kFetchUnknown}, OptLen: 5, Spare: 1})
	// a listener that also serves the application's own TLS clients, and one whose base listener fails once
	out = append(out, scenario{Clients: []string{kFetchUnknown, kBase}, OptLen: 1, Spare: 1}, scenario{Clients: []string{kAuthUnknown, kBase}, OptLen: 1, Spare: 1},
		scenario{Clients: []string{kAuth, kBase}, OptLen: 1, Spare: 1}, scenario{Clients: []string{kAuthReplay, kBase}, OptLen: 1, Spare: 1},
		scenario{Clients: []string{kAuth, kAcceptErr}, OptLen: 1, Spare: 1}, scenario{Clients: []string{kFetchUnknown, kAcceptErr}, OptLen: 1, Spare: 1})
	// with the random-source seam: a first poll runs to its end (whatever the
	// listener keeps from one handshake for the next is in place), then two overlap
	out = append(out, scenario{Clients: []string{kFetchUnknown, kFetchUnknown, kFetchUnknown}, OptLen: 1, Spare: 1, RandSeam: true},
		scenario{Clients: []string{kAuth, kAuth}, OptLen: 1, Spare: 1, RandSeam: true})
	if c.Thorough() {
		out = append(out, scenario{Clients: []string{kAuth, kAuth, kAuth}, OptLen: 1, Spare: 1, RandSeam: true},
			scenario{Clients: []string{kToken, kFetchUnknown, kFetchAuthorized}, OptLen: 1, Spare: 1, RandSeam: true})
	}
	for _, sh := range shapes {
		for a := 0; a < len(kinds); a++ {
			for b := a; b < len(kinds); b++ {
				if !c.Thorough() && kinds[a] != kToken && kinds[b] != kToken && kinds[a] != kAuth && kinds[b] != kAuth && kinds[b] != kAuthReplay {
					continue
				}
				if sh[0] >= 3 && !((kinds[a] == kToken && kinds[b] == kToken) || (kinds[a] == kToken && kinds[b] == kAuth)) {
					continue
				}
				out = append(out, scenario{Clients: []string{kinds[a], kinds[b]}, OptLen: sh[0], Spare: sh[1]})
			}
		}
		if c.Thorough() {
			out = append(out, scenario{Clients: []string{kToken, kToken, kAuth}, OptLen: sh[0], Spare: sh[1]},
				scenario{Clients: []string{kToken, kFetchAuthorized, kAuth}, OptLen: sh[0], Spare: sh[1]},
				scenario{Clients: []string{kAuth, kAuth, kFetchUnknown}, OptLen: sh[0], Spare: sh[1]})
		}
	}
	return out
}

func run(c *engine.Ctx, r *engine.Report) {
	r.Need("explored", "solo:credentials", "solo:authenticated", "solo:rejected")
	// One P: the managed threads run one at a time anyway, and per-P runtime
	// state (sync.Pool's private slots) is then shared by all of them, so that
	// what one handler leaves in a pool is what the next one finds - in every
	// execution of a schedule, not only when the Go scheduler happens to keep
	// both on the same P.
	runtime.GOMAXPROCS(1)
	w := newWorld(c.Seed)
	for si, sc := range scenarios(c) {
		// thorough: three preemptions for pairs on the three representative
		// option shapes, two elsewhere (triples, remaining shapes)
		bound := 2
		if c.Thorough() && len(sc.Clients) == 2 && ((sc.OptLen == 0 && sc.Spare == 0) || (sc.OptLen == 2 && sc.Spare == 4) || (sc.OptLen == 5 && sc.Spare == 0)) {
			bound = 3
		}
		if !c.Mine(si) {
			continue
		}
		if c.Expired() {
			r.Incomplete("deadline reached before all scenarios were explored")
			break
		}
		solo := w.solo(sc)
		for _, s := range solo {
			switch {
			case strings.Contains(s, "credentials-for-this-node"):
				r.Branch("solo:credentials")
			case strings.Contains(s, "authenticated state"):
				r.Branch("solo:authenticated")
			case strings.Contains(s, "rejected") || strings.Contains(s, "not-authorized"):
				r.Branch("solo:rejected")
			}
		}
		res := engine.RunDFS(w.dfsConfig(sc, c, bound, solo))
		r.Eval(int64(res.Executions))
		r.Traces += int64(res.Executions)
		r.AddExtra("schedules_explored", float64(res.Executions))
		r.AddExtra("scenarios", 1)
		r.Branch("explored")
		if !res.Exhaustive {
			r.Incomplete("scenario {" + sc.String() + "} cut by the deadline")
		}
		r.Nontrivial(1)
		r.Extra["preemption_bound_completed"] = float64(bound)
		for _, v := range res.Violations {
			cls := "cross-talk"
			switch {
			case strings.HasPrefix(v.Message, "stuck"):
				cls = "stuck"
			case strings.HasPrefix(v.Message, "deadlock"):
				cls = "deadlock"
			case strings.HasPrefix(v.Message, "panic"):
				cls = "panic"
			}
			r.Violate(fmt.Sprintf("%s:spare=%v:%s", cls, sc.Spare > 0, strings.Join(sc.Clients, "+")), fmt.Sprintf("scenario {%s} schedule %v: %s", sc, v.Choices, v.Message), replayData{sc, v.Choices, bound, c.Seed})
		}
		stuck := false
		for _, v := range res.Violations {
			stuck = stuck || strings.HasPrefix(v.Message, "stuck")
		}
		if stuck {
			r.Incomplete("a stuck execution holds the scheduler; this worker stops exploring")
			return
		}
		if si%7 == 0 {
			r.Sample(map[string]any{"scenario": sc, "schedules": res.Executions, "max_choice_points": res.MaxDepth, "alone": solo})
		}
	}
}

func raceRun(c *engine.Ctx, r *engine.Report) {
	w := newWorld(c.Seed)
	reps := 15
	if c.Thorough() {
		reps = 100
	}
	for _, sc := range scenarios(c) {
		if sc.Spare == 0 && !c.Thorough() {
			continue
		}
		solo := w.solo(sc)
		for i := 0; i < reps; i++ {
			var o *obs
			done := make(chan struct{})
			go func() {
				var wait func()
				o, wait, _ = w.body(sc)
				vrt.WaitFree()
				wait()
				close(done)
			}()
			select {
			case <-done:
			case <-time.After(150 * time.Second):
				r.Violate("race-run:stuck", fmt.Sprintf("free-running scenario {%s} did not finish within 150 s (a handshake is never answered)", sc), replayData{Scenario: sc, Seed: c.Seed})
				return
			}
			r.Eval(1)
			for ci := range sc.Clients {
				if got := render(o, ci); got != solo[ci] {
					r.Violate(fmt.Sprintf("race-run:cross-talk:spare=%v", sc.Spare > 0), fmt.Sprintf("free-running scenario {%s}: connection %d handled concurrently {%s}, alone {%s}", sc, ci, got, solo[ci]), replayData{Scenario: sc, Seed: c.Seed})
				}
			}
		}
		r.Outcome("scenarios")
	}
}

func replay(c *engine.Ctx, raw json.RawMessage) (string, bool) {
	var rd replayData
	if err := json.Unmarshal(raw, &rd); err != nil {
		return err.Error(), false
	}
	if rd.Choices == nil {
		return "free-running finding: not schedule-replayable, re-run the check", false
	}
	w := newWorld(rd.Seed)
	solo := w.solo(rd.Scenario)
	x, _, msg := engine.RunOnce(w.dfsConfig(rd.Scenario, c, rd.Bound, solo), rd.Choices, true)
	return fmt.Sprintf("scenario {%s}\nschedule %v\ntrace: %s\nalone: %v\n%s", rd.Scenario, rd.Choices, strings.Join(x.Trace, " | "), solo, msg), msg != ""
}

var _ = sort.Strings

func init() {
	engine.Register(&engine.CheckDef{
		ID:    "C15",
		Level: "exploration",
		Rule: "one real InterceptingListener over real (unix-socket) connections; 2 (thorough also 3) handler threads each running one Accept for clients of kinds {fetch by an authorized node, fetch by an unknown node, token enrollment carrying its own state, authentication with its own client state and extra protocols, authentication by an unregistered key, a registered node's replayed request presented with a self-signed certificate, a client of the application's own TLS configuration, a handler whose base Accept fails once}, for application option slices of length 0/1/2 with spare capacity 0/1/4 and of every length 3..9 with exact capacity; every schedule with at most 2 preemptions (thorough: 3 for pairs on three representative option shapes) over the scheduling points {every storage call, entry/exit of the fetch and certificate functions, base Accept}; two scenarios (thorough four) in which the option list carries an application random source whose reads by the TLS layer after the fetch / certificate function returned are scheduling points too (three polls of unauthorized nodes, two authentications); oracle: each connection's (server result, reported state and protocols, client-side answer, created record's state) equals its outcome when handled alone; " +
			"evaluations = schedules executed; distinct_nontrivial = scenarios explored",
		Assumptions: []string{"code between two scheduling points of one handshake runs atomically w.r.t. the other handshakes (scheduling points are where shared state can be touched: storage and the shared option slice around the function calls); unsynchronised accesses inside those blocks are the -race companion's job", "clients are storage-independent (distinct keys and tokens), so the sequential outcome of each is order-independent"},
		Shards:      func(c *engine.Ctx) int { return 16 },
		Run:         run,
		RaceRun:     raceRun,
		Replay:      replay,
	})
}
