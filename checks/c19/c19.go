// Package c19: storage back ends behave as a typed key-value map.
//
//	sequential  E1: BFS over store/remove/invalid operations on the three real
//	            back ends, state = map model; after every transition the full
//	            observable contents (load of every slot, list of every type)
//	            are compared with the model.
//	concurrent  E2: every interleaving of small thread programs on one
//	            colliding slot of the in-memory back end (sync rewritten to the
//	            scheduler's shims); every history is checked for
//	            linearizability against the map model with porcupine.
//	race        R: the same thread programs free-running under -race.
package c19

import (
	"context"
	"encoding/json"
	"errors"
	"fmt"
	"google.golang.org/protobuf/proto"
	"os"
	"path/filepath"
	"sort"
	"strings"
	"sync/atomic"

	"github.com/anishathalye/porcupine"
	"github.com/hashicorp/nodeenrollment"
	"github.com/hashicorp/nodeenrollment/storage/file"
	"github.com/hashicorp/nodeenrollment/storage/inmem"
	storeonce "github.com/hashicorp/nodeenrollment/storage/testing"
	"github.com/hashicorp/nodeenrollment/types"
	vrt "github.com/hashicorp/nodeenrollment/zz_verif/vrt"
	"verif/engine"
)

var typeNames = []string{"ni", "nc", "rc", "tk"}

// two values of clearly different encoded length: an overwrite with the
// shorter one must not leave the tail of the longer one behind
const shortVal = "s"
const longVal = "a-much-longer-value-0123456789-0123456789-0123456789-0123456789"

// (ids: one a prefix of the other; one with a leading dot, which a back end
// that maps ids to file names must not treat as hidden)
// one that looks like a temporary file of another id
var idNames = []string{"a", "ab", ".a", "a.tmp"}

func newMsg(t, id, val string) nodeenrollment.MessageWithId {
	switch t {
	case "ni":
		return &types.NodeInformation{Id: id, RegistrationNonce: []byte(val)}
	case "nc":
		return &types.NodeCredentials{Id: id, RegistrationNonce: []byte(val)}
	case "rc":
		return &types.RootCertificates{Id: id, WrappingKeyId: val}
	case "tk":
		return &types.ServerLedActivationToken{Id: id, WrappingKeyId: val}
	}
	panic("type " + t)
}

func valueOf(m nodeenrollment.MessageWithId) string {
	switch x := m.(type) {
	case *types.NodeInformation:
		return string(x.RegistrationNonce)
	case *types.NodeCredentials:
		return string(x.RegistrationNonce)
	case *types.RootCertificates:
		return x.WrappingKeyId
	case *types.ServerLedActivationToken:
		return x.WrappingKeyId
	}
	return "?"
}

// dirty is a destination that still holds the result of some earlier load.
func dirty(t, id string) nodeenrollment.MessageWithId {
	switch t {
	case "ni":
		return &types.NodeInformation{Id: id, RegistrationNonce: []byte("left-over"), CertificatePublicKeyPkix: []byte("left-over")}
	case "nc":
		return &types.NodeCredentials{Id: id, RegistrationNonce: []byte("left-over"), CertificateBundles: []*types.CertificateBundle{{CertificateDer: []byte("left-over")}}}
	case "rc":
		return &types.RootCertificates{Id: id, WrappingKeyId: "left-over", Next: &types.RootCertificate{Id: "left-over"}}
	case "tk":
		return &types.ServerLedActivationToken{Id: id, WrappingKeyId: "left-over", CreationTimeMarshaled: []byte("left-over")}
	}
	panic("type " + t)
}

// scribble overwrites the message after it was handed to Store: a back end
// that keeps the caller's pointer instead of a copy is exposed by later loads.
func scribble(m nodeenrollment.MessageWithId) {
	switch x := m.(type) {
	case *types.NodeInformation:
		x.RegistrationNonce = []byte("scribbled")
		x.Id = "scribbled"
	case *types.NodeCredentials:
		x.RegistrationNonce = []byte("scribbled")
		x.Id = "scribbled"
	case *types.RootCertificates:
		x.WrappingKeyId = "scribbled"
		x.Id = "scribbled"
	case *types.ServerLedActivationToken:
		x.WrappingKeyId = "scribbled"
		x.Id = "scribbled"
	}
}

type model map[string]string // "type/id" -> value

func (m model) key() string {
	var ks []string
	for k, v := range m {
		ks = append(ks, k+"="+v)
	}
	sort.Strings(ks)
	return strings.Join(ks, ",")
}

func (m model) clone() model {
	c := model{}
	for k, v := range m {
		c[k] = v
	}
	return c
}

type backend struct {
	name    string
	st      nodeenrollment.Storage
	cleanup func()
}

var dirSeq int64

func newBackend(name string) *backend {
	ctx := context.Background()
	switch name {
	case "inmem":
		s, err := inmem.New(ctx)
		if err != nil {
			panic(err)
		}
		return &backend{name, s, func() {}}
	case "storeonce":
		s, err := storeonce.New(ctx)
		if err != nil {
			panic(err)
		}
		return &backend{name, s, func() {}}
	case "file":
		dir := filepath.Join(engine.VerifRoot(), ".work", "c19", fmt.Sprintf("%d-%d", os.Getpid(), atomic.AddInt64(&dirSeq, 1)))
		s, err := file.New(ctx, file.WithBaseDirectory(dir))
		if err != nil {
			panic(err)
		}
		return &backend{name, s, func() { os.RemoveAll(dir) }}
	}
	panic(name)
}

// apply performs one operation on the real back end and on the model, and
// returns a violation description if the result contradicts the model.
func apply(be *backend, m model, op string) string {
	ctx := context.Background()
	f := strings.Split(op, ":")
	switch f[0] {
	case "S":
		t, id, val := f[1], f[2], f[3]
		msg := newMsg(t, id, val)
		err := be.st.Store(ctx, msg)
		scribble(msg)
		_, exists := m[t+"/"+id]
		if be.name == "storeonce" && t == "ni" && exists {
			var dre *types.DuplicateRecordError
			if err == nil {
				return "store-once back end overwrote an existing node record without an error"
			}
			if !(errors.As(err, &dre) || errors.As(err, &types.DuplicateRecordError{})) {
				return fmt.Sprintf("store-once back end refused the overwrite with a non-duplicate error: %v", err)
			}
			return ""
		}
		if err != nil {
			return fmt.Sprintf("store failed: %v", err)
		}
		m[t+"/"+id] = val
	case "R":
		t, id := f[1], f[2]
		_, exists := m[t+"/"+id]
		err := be.st.Remove(ctx, newMsg(t, id, ""))
		if exists && err != nil {
			return fmt.Sprintf("remove of an existing entry failed: %v", err)
		}
		delete(m, t+"/"+id) // result of removing an absent entry is unconstrained
	case "SC":
		// a store whose context is already cancelled: whatever it answers, a
		// call that reports an error has stored nothing
		t, id := f[1], f[2]
		cctx, cancel := context.WithCancel(ctx)
		cancel()
		msg := newMsg(t, id, "stored-under-a-cancelled-context")
		if err := be.st.Store(cctx, msg); err == nil {
			m[t+"/"+id] = "stored-under-a-cancelled-context" // accepted: then it must be there
		}
	case "Xnil":
		if err := be.st.Store(ctx, nil); err == nil {
			return "Store(nil) was accepted"
		}
		if err := be.st.Load(ctx, nil); err == nil {
			return "Load(nil) was accepted"
		}
		if err := be.st.Remove(ctx, nil); err == nil {
			return "Remove(nil) was accepted"
		}
	case "Xtypednil":
		var n *types.NodeInformation
		if err := be.st.Store(ctx, n); err == nil {
			return "Store((*NodeInformation)(nil)) was accepted"
		}
	case "Xunknown":
		u := &types.RootCertificate{Id: "a"}
		if err := be.st.Store(ctx, u); err == nil {
			return "Store of an unknown message type was accepted"
		}
		if err := be.st.Load(ctx, u); err == nil {
			return "Load of an unknown message type was accepted"
		}
		if err := be.st.Remove(ctx, u); err == nil {
			return "Remove of an unknown message type was accepted"
		}
		if _, err := be.st.List(ctx, u); err == nil {
			return "List of an unknown message type was accepted"
		}
	case "Xemptyid":
		if err := be.st.Store(ctx, newMsg(f[1], "", "v")); err == nil {
			return "Store with an empty id was accepted"
		}
	}
	return ""
}

// observe compares everything observable through the API with the model.
func observe(be *backend, m model) string {
	ctx := context.Background()
	for _, t := range typeNames {
		for _, id := range idNames {
			msg := newMsg(t, id, "")
			err := be.st.Load(ctx, msg)
			want, exists := m[t+"/"+id]
			switch {
			case exists && err != nil:
				return fmt.Sprintf("load %s/%s: stored entry not returned: %v", t, id, err)
			case exists && (valueOf(msg) != want || msg.GetId() != id):
				return fmt.Sprintf("load %s/%s: got value %q id %q, most recently stored was %q", t, id, valueOf(msg), msg.GetId(), want)
			case !exists && err == nil:
				return fmt.Sprintf("load %s/%s: absent entry was returned (value %q)", t, id, valueOf(msg))
			case exists:
				// a load returns the stored message, whatever the destination
				// held before (a value reused from an earlier load)
				dst := dirty(t, id)
				if err := be.st.Load(ctx, dst); err != nil {
					return fmt.Sprintf("load %s/%s into a reused destination failed: %v", t, id, err)
				}
				if !proto.Equal(dst, newMsg(t, id, want)) {
					return fmt.Sprintf("load %s/%s into a reused destination: the result keeps what the destination held before the load (got %v)", t, id, dst)
				}
			case !exists && !errors.Is(err, nodeenrollment.ErrNotFound):
				return fmt.Sprintf("load %s/%s: absent entry reported with an error that is not ErrNotFound: %v", t, id, err)
			}
		}
		if t == "tk" {
			continue // not a listable type
		}
		got, err := be.st.List(ctx, newMsg(t, "", ""))
		if err != nil {
			return fmt.Sprintf("list %s failed: %v", t, err)
		}
		var want []string
		for _, id := range idNames {
			if _, ok := m[t+"/"+id]; ok {
				want = append(want, id)
			}
		}
		sort.Strings(got)
		sort.Strings(want)
		if strings.Join(got, ",") != strings.Join(want, ",") {
			return fmt.Sprintf("list %s: got %v, model has %v", t, got, want)
		}
	}
	return ""
}

func mutators(thorough bool) []string {
	var ops []string
	for _, t := range typeNames {
		for _, id := range idNames {
			ops = append(ops, "S:"+t+":"+id+":"+shortVal, "S:"+t+":"+id+":"+longVal, "R:"+t+":"+id)
		}
	}
	ops = append(ops, "SC:ni:a", "SC:rc:ab", "Xnil", "Xtypednil", "Xunknown", "Xemptyid:ni", "Xemptyid:rc")
	return ops
}

type seqState struct {
	m    model
	path []string
}

// replayPath builds a fresh back end and applies the path; any contradiction
// on the way is returned.
func replayPath(name string, path []string) (*backend, model, string) {
	be := newBackend(name)
	m := model{}
	for _, op := range path {
		if v := apply(be, m, op); v != "" {
			return be, m, v
		}
	}
	return be, m, ""
}

type seqReplay struct {
	Part    string   `json:"part"`
	Backend string   `json:"backend"`
	Path    []string `json:"path"`
}

func runSequential(c *engine.Ctx, r *engine.Report, name string, depth int) {
	ops := mutators(c.Thorough())
	b := &engine.BFS[seqState]{
		Init:     []seqState{{model{}, nil}},
		Key:      func(s seqState) string { return s.m.key() },
		MaxDepth: depth,
		Ctx:      c,
		Report:   r,
		Expand: func(s seqState, path []string, emit func(string, seqState)) {
			for _, op := range ops {
				be, m, v := replayPath(name, path)
				if v == "" {
					v = apply(be, m, op)
				}
				if v == "" {
					v = observe(be, m)
				}
				be.cleanup()
				r.Eval(1)
				full := append(append([]string{}, path...), op)
				if v != "" {
					r.Violate("seq:"+name+":"+opClass(op)+":"+firstWords(v), fmt.Sprintf("[%s] after %v: %s", name, full, v), seqReplay{"seq", name, full})
					continue
				}
				// states are merged by the model's contents; a back end that keeps
				// hidden history (an id once used, a cached value) would be merged
				// away with them. So every transition is followed, on a fresh replay,
				// by each operation on the slot it just touched, whether or not the
				// state reached was seen before.
				if f := strings.Split(op, ":"); len(f) >= 3 && (f[0] == "S" || f[0] == "R") {
					for _, probe := range []string{"S:" + f[1] + ":" + f[2] + ":" + shortVal, "S:" + f[1] + ":" + f[2] + ":" + longVal, "R:" + f[1] + ":" + f[2]} {
						be2, m2, v2 := replayPath(name, full)
						if v2 == "" {
							v2 = apply(be2, m2, probe)
						}
						if v2 == "" {
							v2 = observe(be2, m2)
						}
						be2.cleanup()
						r.Eval(1)
						if v2 != "" {
							r.Violate("seq:"+name+":"+opClass(probe)+":after-history:"+firstWords(v2), fmt.Sprintf("[%s] after %v then %s: %s", name, full, probe, v2), seqReplay{"seq", name, append(append([]string{}, full...), probe)})
							break
						}
					}
				}
				r.Branch("seq:" + name)
				if len(path) == 2 && op == ops[4] {
					r.Sample(map[string]any{"backend": name, "ops": full, "model_after": m.key()})
				}
				emit(op, seqState{m, nil})
			}
		},
	}
	fix := b.Run()
	r.Extra["seq_"+name+"_fixpoint"] = fix
	r.Nontrivial(r.States)
}

func opClass(op string) string { return strings.Split(op, ":")[0] }

func firstWords(s string) string {
	f := strings.Fields(s)
	if len(f) > 4 {
		f = f[:4]
	}
	return strings.Join(f, "-")
}

// ---------------------------------------------------------------------------
// concurrent part

type cop struct {
	Kind string // S L R T
	T    string
	Id   string
	Val  string
}

func (o cop) String() string { return o.Kind + ":" + o.T + ":" + o.Id + ":" + o.Val }

type cout struct {
	Err   string // "" | notfound | other
	Val   string
	Ids   string
	Other string
}

var linModel = porcupine.Model{
	Init: func() interface{} { return "" },
	Step: func(state, input, output interface{}) (bool, interface{}) {
		m := model{}
		if s := state.(string); s != "" {
			for _, kv := range strings.Split(s, ",") {
				p := strings.SplitN(kv, "=", 2)
				m[p[0]] = p[1]
			}
		}
		in, out := input.(cop), output.(cout)
		k := in.T + "/" + in.Id
		switch in.Kind {
		case "S":
			if out.Err != "" {
				return false, state
			}
			m[k] = in.Val
		case "R":
			if out.Err != "" {
				return false, state
			}
			delete(m, k)
		case "L":
			v, ok := m[k]
			if ok {
				return out.Err == "" && out.Val == v, state
			}
			return out.Err == "notfound", state
		case "T":
			var ids []string
			for key := range m {
				if strings.HasPrefix(key, in.T+"/") {
					ids = append(ids, strings.TrimPrefix(key, in.T+"/"))
				}
			}
			sort.Strings(ids)
			return out.Err == "" && out.Ids == strings.Join(ids, ","), state
		}
		return true, m.key()
	},
	Equal: func(a, b interface{}) bool { return a.(string) == b.(string) },
}

func doOp(st nodeenrollment.Storage, o cop) cout {
	ctx := context.Background()
	classify := func(err error) string {
		switch {
		case err == nil:
			return ""
		case errors.Is(err, nodeenrollment.ErrNotFound):
			return "notfound"
		}
		return "other"
	}
	switch o.Kind {
	case "S":
		err := st.Store(ctx, newMsg(o.T, o.Id, o.Val))
		return cout{Err: classify(err)}
	case "R":
		err := st.Remove(ctx, newMsg(o.T, o.Id, ""))
		return cout{Err: classify(err)}
	case "L":
		m := newMsg(o.T, o.Id, "")
		err := st.Load(ctx, m)
		return cout{Err: classify(err), Val: valueOf(m)}
	case "T":
		ids, err := st.List(ctx, newMsg(o.T, "", ""))
		sort.Strings(ids)
		return cout{Err: classify(err), Ids: strings.Join(ids, ",")}
	}
	panic(o.Kind)
}

// menu of operations on the colliding slot ni/a and its neighbours
var cmenu = []cop{
	{"S", "ni", "a", "v1"}, {"S", "ni", "a", "v2"}, {"R", "ni", "a", ""}, {"L", "ni", "a", ""}, {"T", "ni", "", ""},
	{"S", "ni", "ab", "v3"}, {"S", "nc", "a", "v4"},
}

type scenario struct {
	Name    string  `json:"name"`
	Threads [][]cop `json:"threads"`
}

func scenarios(c *engine.Ctx) []scenario {
	var out []scenario
	// two threads, two operations each
	pairs := [][]cop{}
	for _, a := range cmenu[:5] {
		for _, b := range cmenu {
			pairs = append(pairs, []cop{a, b})
		}
	}
	for i, p := range pairs {
		for j, q := range pairs {
			if j < i {
				continue // thread programs are symmetric
			}
			if !c.Thorough() && (i*7+j)%9 != 0 {
				continue // quick: one ninth of the program pairs, all their interleavings
			}
			out = append(out, scenario{Name: fmt.Sprintf("2x2:%d:%d", i, j), Threads: [][]cop{p, q}})
		}
	}
	// three threads, one operation each
	for i, a := range cmenu[:5] {
		for j, b := range cmenu[:5] {
			for k, d := range cmenu {
				if j < i {
					continue
				}
				out = append(out, scenario{Name: fmt.Sprintf("3x1:%d:%d:%d", i, j, k), Threads: [][]cop{{a}, {b}, {d}}})
			}
		}
	}
	return out
}

type history struct {
	ops   []porcupine.Operation
	clock int64
}

// body runs the scenario's threads against a fresh in-memory back end. Under
// the scheduler vrt.Go creates managed threads; free-running it creates
// goroutines.
func body(sc scenario, h *history, st nodeenrollment.Storage) {
	for ti, prog := range sc.Threads {
		ti, prog := ti, prog
		vrt.Go(func() {
			for _, o := range prog {
				call := atomic.AddInt64(&h.clock, 1)
				out := doOp(st, o)
				ret := atomic.AddInt64(&h.clock, 1)
				rec := porcupine.Operation{ClientId: ti, Input: o, Call: call, Output: out, Return: ret}
				hmu.Lock()
				h.ops = append(h.ops, rec)
				hmu.Unlock()
			}
		})
	}
}

var hmu spin

// spin is a tiny real lock for the history slice (never contended under the
// cooperative scheduler; needed only free-running).
type spin struct{ v int32 }

func (s *spin) Lock() {
	for !atomic.CompareAndSwapInt32(&s.v, 0, 1) {
	}
}
func (s *spin) Unlock() { atomic.StoreInt32(&s.v, 0) }

func describe(ops []porcupine.Operation) string {
	var b strings.Builder
	sort.Slice(ops, func(i, j int) bool { return ops[i].Call < ops[j].Call })
	for _, o := range ops {
		fmt.Fprintf(&b, "T%d %v [%d,%d] -> %+v; ", o.ClientId, o.Input, o.Call, o.Return, o.Output)
	}
	return b.String()
}

type concReplay struct {
	Part     string   `json:"part"`
	Scenario scenario `json:"scenario"`
	Choices  []int    `json:"choices"`
}

func dfsConfig(sc scenario, c *engine.Ctx) engine.DFSConfig {
	return engine.DFSConfig{
		Name:     sc.Name,
		Bound:    -1,
		Deadline: c.Deadline,
		Body: func() any {
			st, _ := inmem.New(context.Background())
			h := &history{}
			body(sc, h, st)
			return h
		},
		Check: func(x *vrt.Execution, obs any) string {
			h := obs.(*history)
			n := 0
			for _, t := range sc.Threads {
				n += len(t)
			}
			if len(h.ops) != n {
				return fmt.Sprintf("only %d of %d operations completed", len(h.ops), n)
			}
			if !porcupine.CheckOperations(linModel, h.ops) {
				return "history is not linearizable w.r.t. the typed-map model: " + describe(h.ops)
			}
			return ""
		},
		Outcome: func(x *vrt.Execution, obs any) string {
			if x.Failure != "" {
				return x.FailKind
			}
			h := obs.(*history)
			var outs []string
			ops := append([]porcupine.Operation{}, h.ops...)
			sort.Slice(ops, func(i, j int) bool {
				if ops[i].ClientId != ops[j].ClientId {
					return ops[i].ClientId < ops[j].ClientId
				}
				return ops[i].Call < ops[j].Call
			})
			for _, o := range ops {
				outs = append(outs, fmt.Sprintf("%+v", o.Output))
			}
			return strings.Join(outs, "|")
		},
	}
}

func runConcurrent(c *engine.Ctx, r *engine.Report) {
	scs := scenarios(c)
	distinctOutcomes := 0
	for i, sc := range scs {
		if !c.Mine(i) {
			continue
		}
		if c.Expired() {
			r.Incomplete("internal deadline reached before all concurrent scenarios were explored")
			break
		}
		res := engine.RunDFS(dfsConfig(sc, c))
		r.Eval(int64(res.Executions))
		r.Traces += int64(res.Executions)
		r.AddExtra("schedules_explored", float64(res.Executions))
		r.AddExtra("concurrent_scenarios", 1)
		if !res.Exhaustive {
			r.Incomplete("scenario " + sc.Name + " cut by the deadline")
		}
		if len(res.Outcomes) > 1 {
			r.Branch("conc:scenario-with-several-outcomes")
		}
		distinctOutcomes += len(res.Outcomes)
		r.Branch("conc:explored")
		for _, v := range res.Violations {
			r.Violate("conc:"+firstWords(v.Message), fmt.Sprintf("scenario %s schedule %v: %s", sc.Name, v.Choices, v.Message), concReplay{"conc", sc, v.Choices})
		}
		if i%97 == 0 {
			r.Sample(map[string]any{"scenario": sc, "schedules": res.Executions, "distinct_outcomes": len(res.Outcomes), "max_choice_points": res.MaxDepth})
		}
	}
	r.AddExtra("distinct_outcomes_over_scenarios", float64(distinctOutcomes))
	r.Nontrivial(int64(distinctOutcomes))
}

func run(c *engine.Ctx, r *engine.Report) {
	r.Need("seq:inmem", "seq:file", "seq:storeonce", "conc:explored", "conc:scenario-with-several-outcomes")
	// shards 0..2 run the sequential part of one back end each; every shard
	// takes its share of the concurrent scenarios
	depthMem, depthFile := 3, 2
	if c.Thorough() {
		// (with four ids the full fixpoint has 3^16 model states: depth-bounded)
		depthMem, depthFile = 4, 3
	}
	switch c.Shard {
	case 0:
		runSequential(c, r, "inmem", depthMem)
	case 1 % c.Shards:
		runSequential(c, r, "storeonce", depthMem)
	}
	if c.Shard == 2%c.Shards {
		runSequential(c, r, "file", depthFile)
	}
	if c.Shards == 1 {
		runSequential(c, r, "storeonce", depthMem)
	}
	runConcurrent(c, r)
}

// raceRun: the same thread programs, free-running, under the race detector.
func raceRun(c *engine.Ctx, r *engine.Report) {
	scs := scenarios(c)
	reps := 20
	if c.Thorough() {
		reps = 200
	}
	for i, sc := range scs {
		if i%5 != 0 && !c.Thorough() {
			continue
		}
		for k := 0; k < reps; k++ {
			st, _ := inmem.New(context.Background())
			h := &history{}
			body(sc, h, st)
			vrt.WaitFree()
			r.Eval(1)
			if !porcupine.CheckOperations(linModel, h.ops) {
				r.Violate("race-run:not-linearizable", "free-running history is not linearizable: "+describe(h.ops), concReplay{"race", sc, nil})
			}
		}
		r.Outcome("race-scenarios")
	}
}

func replay(c *engine.Ctx, raw json.RawMessage) (string, bool) {
	var probe struct {
		Part string `json:"part"`
	}
	json.Unmarshal(raw, &probe)
	switch probe.Part {
	case "seq":
		var sr seqReplay
		json.Unmarshal(raw, &sr)
		be, m, v := replayPath(sr.Backend, sr.Path)
		if v == "" {
			v = observe(be, m)
		}
		be.cleanup()
		if v != "" {
			return fmt.Sprintf("[%s] %v: %s", sr.Backend, sr.Path, v), true
		}
		return fmt.Sprintf("[%s] %v: model and back end agree", sr.Backend, sr.Path), false
	case "conc":
		var cr concReplay
		json.Unmarshal(raw, &cr)
		if !vrt.Active() && false {
			return "", false
		}
		cfg := dfsConfig(cr.Scenario, c)
		x, _, msg := engine.RunOnce(cfg, cr.Choices, true)
		return fmt.Sprintf("scenario %+v\nschedule %v\ntrace: %s\n%s", cr.Scenario, cr.Choices, strings.Join(x.Trace, " | "), msg), msg != ""
	}
	return "race-companion finding: re-run the check; races are not schedule-replayable", false
}

func init() {
	engine.Register(&engine.CheckDef{
		ID:     "C19",
		Level:  "model_checking",
		Binary: "sched",
		Rule: "sequential: BFS over {store short|long value, remove} x 4 types x ids {a, ab, .a, a.tmp} plus stores under an already cancelled context, nil / typed-nil / unknown-type / empty-id operations on the real inmem, file and store-once back ends (quick depth 3/2, thorough depth 4/3), state = map model, every transition followed by a full load+list comparison and (states being merged by model contents, which would hide history kept inside a back end) by one further step of each operation on the slot just touched; concurrent: all interleavings (unbounded) of 2 threads x 2 ops and 3 threads x 1 op on the colliding slot ni/a of the in-memory back end under the scheduler, each history checked for linearizability with porcupine; " +
			"states = canonical model states of the sequential search; distinct_nontrivial = sequential states + distinct per-scenario concurrent outcomes",
		Assumptions: []string{"scheduling points are the lock operations of the in-memory back end (sequential consistency in between); unsynchronised accesses are the race companion's job (sampling)", "the result of removing an absent entry is not constrained (back ends differ, the property is silent)"},
		Shards:      func(c *engine.Ctx) int { return 16 },
		Run:         run,
		RaceRun:     raceRun,
		Replay:      replay,
	})
}
