// Package c14: no remote input can crash or stop the listener (E4 over
// ClientHello ALPN shapes and raw byte strings, E3 over connection drops at
// every handshake step; every case is followed by an honest dial on the same
// listener).
package c14

import (
	"context"
	"crypto/tls"
	"encoding/base64"
	"encoding/json"
	"fmt"
	"github.com/hashicorp/go-kms-wrapping/v2/aead"
	"net"
	"sort"
	"strings"
	"sync/atomic"
	"time"

	"github.com/hashicorp/nodeenrollment"
	"github.com/hashicorp/nodeenrollment/protocol"
	"github.com/hashicorp/nodeenrollment/registration"
	nodetls "github.com/hashicorp/nodeenrollment/tls"
	"github.com/hashicorp/nodeenrollment/types"
	vclock "github.com/hashicorp/nodeenrollment/zz_verif/vclock"
	"google.golang.org/protobuf/proto"
	"verif/engine"
	"verif/harness"
)

type kase struct {
	Kind    string   `json:"kind"` // alpn | raw | drop | srvfault
	Protos  []string `json:"protos,omitempty"`
	Desc    string   `json:"desc"`
	Raw     []byte   `json:"raw,omitempty"`
	Flow    string   `json:"flow,omitempty"`  // drop: fetch | auth
	After   string   `json:"after,omitempty"` // drop: write | read
	K       int      `json:"k,omitempty"`
	BaseTLS bool     `json:"base_tls"`
	// NilWrapper: the listener's options carry a registration wrapper that is
	// a nil pointer of a concrete type (a configuration slip the library
	// tolerates: it treats it as "no wrapper")
	NilWrapper bool `json:"typed_nil_registration_wrapper,omitempty"`
	// Cert: the client certificate an "alpn" peer presents: "" = the honest
	// node's chain; "no-names" = a self-signed certificate of the honest
	// node's key without any name; "outsider-no-names" = the same of another key
	Cert string `json:"client_certificate,omitempty"`
	Seed int64  `json:"seed"`
}

type world struct {
	seed      int64
	st        *harness.MemStore
	honest    *harness.Enrolled
	pending   *harness.MemStore // node-side store of an unregistered node (fetch flow)
	baseTLS   *tls.Config
	opts      []nodeenrollment.Option
	usedToken *harness.Token // an activation token that already enrolled a node
}

func newWorld(seed int64) *world {
	vclock.Reset()
	w := &world{seed: seed, st: harness.NewMemStore()}
	harness.InitRoots(w.st)
	var err error
	w.honest, err = harness.Enroll(w.st, harness.NewCertKey("K1", seed), harness.NewEncKey("E1", seed), harness.Bytes("n1", 32), nil, nil)
	if err != nil {
		panic(err)
	}
	w.pending = harness.NewMemStore()
	if err := harness.NodeCreds(harness.NewCertKey("KP", seed), harness.NewEncKey("EP", seed), harness.Bytes("np", 32)).Store(harness.Ctx, w.pending); err != nil {
		panic(err)
	}
	// a token that has been used up
	w.usedToken, err = harness.CreateToken(w.st, "used", seed)
	if err != nil {
		panic(err)
	}
	uk, ue := harness.NewCertKey("token-user", seed), harness.NewEncKey("token-user-enc", seed)
	if resp, err := registration.FetchNodeCredentials(harness.Ctx, w.st, harness.SignedRequest(harness.Info(uk, ue, w.usedToken.Bytes), uk)); err != nil || !harness.HasCreds(resp) {
		panic(fmt.Sprint("token enrollment failed: ", err))
	}
	// an application base TLS configuration with its own certificate
	k := harness.NewCertKey("app", seed)
	w.baseTLS = &tls.Config{Certificates: []tls.Certificate{selfSigned(k)}, NextProtos: []string{"h2", "app"}, MinVersion: tls.VersionTLS12}
	w.opts = []nodeenrollment.Option{nodeenrollment.WithRegistrationWrapper(harness.SafeWrapper{Wrapper: harness.Wrapper("registration", seed)})}
	return w
}

func selfSigned(k *harness.CertKey) tls.Certificate {
	der := harness.SelfSignedCert(k, "app.example")
	return tls.Certificate{Certificate: [][]byte{der}, PrivateKey: k.Priv}
}

// chunks encodes raw bytes under a prefix the way the library's clients do.
func chunks(prefix string, raw []byte) []string {
	if len(raw) == 0 {
		return []string{prefix + "00-"}
	}
	out, err := nodetls.BreakIntoNextProtos(prefix, base64.RawStdEncoding.EncodeToString(raw))
	if err != nil {
		panic(err)
	}
	return out
}

func (w *world) honestAuthRaw() []byte {
	nonce := harness.Bytes("c14-nonce", 32)
	req := &types.GenerateServerCertificatesRequest{CertificatePublicKeyPkix: w.honest.K.Pkix, Nonce: nonce, NonceSignature: w.honest.K.Sign(nonce)}
	b, _ := proto.Marshal(req)
	return b
}

func (w *world) honestFetchRaw() []byte {
	c, err := types.LoadNodeCredentials(harness.Ctx, w.pending.Clone(), nodeenrollment.CurrentId)
	if err != nil {
		panic(err)
	}
	// built at a whole second: the encoded size of the validity timestamps
	// (and with it the list of truncation cases) is then the same in every run
	vclock.Freeze(time.Now().Truncate(time.Second))
	req, err := c.CreateFetchNodeCredentialsRequest(harness.Ctx)
	vclock.Reset()
	if err != nil {
		panic(err)
	}
	b, _ := proto.Marshal(req)
	return b
}

var prefixes = map[string]string{"fetch": nodeenrollment.FetchNodeCredsNextProtoV1Prefix, "auth": nodeenrollment.AuthenticateNodeNextProtoV1Prefix, "pref": nodeenrollment.CertificatePreferenceV1Prefix}

func (w *world) cases(c *engine.Ctx, emit func(kase)) {
	b64 := func(b []byte) string { return base64.RawStdEncoding.EncodeToString(b) }
	simple := []struct{ n, s string }{
		{"empty", ""}, {"one-digit", "0"}, {"two-digits", "00"}, {"header-only", "00-"}, {"non-base64", "00-!!!*"}, {"base64-random16", "00-" + b64(harness.Bytes("r16", 16))},
		{"three-digit-header", "100-" + b64(harness.Bytes("r16", 16))}, {"hyphens", "---"}, {"long-no-header", strings.Repeat("A", 200)},
	}
	for _, base := range []bool{false, true} {
		for _, pn := range []string{"auth", "fetch", "pref"} {
			p := prefixes[pn]
			for _, s := range simple {
				emit(kase{Kind: "alpn", Protos: []string{p + s.s}, Desc: pn + ":" + s.n, BaseTLS: base})
				emit(kase{Kind: "alpn", Protos: []string{"h2", p + s.s, "zz"}, Desc: "h2," + pn + ":" + s.n + ",zz", BaseTLS: base})
			}
		}
		// pairs and triples over the prefixes with short suffixes
		short := []string{"", "0", "00-", "00-QUJD"}
		names := []string{"fetch", "auth", "pref"}
		for _, a := range names {
			for _, b := range names {
				for _, sa := range short {
					for _, sb := range short {
						emit(kase{Kind: "alpn", Protos: []string{prefixes[a] + sa, prefixes[b] + sb}, Desc: fmt.Sprintf("%s:%q,%s:%q", a, sa, b, sb), BaseTLS: base})
					}
				}
				if c.Thorough() {
					for _, d := range names {
						for _, sa := range short[:3] {
							emit(kase{Kind: "alpn", Protos: []string{prefixes[a] + sa, prefixes[b] + "00-QUJD", prefixes[d] + sa}, Desc: fmt.Sprintf("triple %s,%s,%s:%q", a, b, d, sa), BaseTLS: base})
						}
					}
				}
			}
		}
	}
	// peers of the application's own TLS configuration whose handshake completes
	// and whose protocol list holds names that are legal on the wire but unusual
	for _, odd := range []struct{ n, s string }{{"255-byte name", strings.Repeat("L", 255)}, {"254-byte name", strings.Repeat("L", 254)}, {"name that is not valid UTF-8", "\xfa\xfa"}, {"name with a NUL byte", "a\x00b"}, {"one-byte name", "z"}} {
		emit(kase{Kind: "alpn", Protos: []string{"h2", odd.s}, Desc: "base-TLS peer offering h2 and a " + odd.n, BaseTLS: true})
		emit(kase{Kind: "alpn", Protos: []string{odd.s, "app"}, Desc: "base-TLS peer offering a " + odd.n + " and app", BaseTLS: true})
	}
	// honest requests truncated at every length, padded, duplicated, mixed
	auth, fetch := w.honestAuthRaw(), w.honestFetchRaw()
	for _, name := range []string{"auth", "fetch"} {
		raw := map[string][]byte{"auth": auth, "fetch": fetch}[name]
		step := 1
		if !c.Thorough() {
			step = 3
		}
		// the request carries timestamps whose encoded size depends on the
		// instant it was built at: the number of cases must not (every worker
		// process enumerates the same numbered list), so the lengths run to a
		// fixed limit and are clipped
		const limit = 420
		if len(raw) > limit {
			panic("c14: honest request longer than the truncation limit")
		}
		for n := 0; n < limit; n += step {
			m := n
			if m > len(raw) {
				m = len(raw)
			}
			if m < n && name == "auth" {
				break // the authentication request has a fixed size
			}
			d := fmt.Sprintf("%s request truncated to %d bytes", name, n)
			if m < n {
				d += " (clipped: the whole request)"
			}
			emit(kase{Kind: "alpn", Protos: chunks(prefixes[name], raw[:m]), Desc: d})
		}
		// padded with an unknown 20 KiB field: > 100 chunks
		pad := append(append([]byte{}, raw...), protoBytesField(1999, harness.Bytes("pad", 20*1024))...)
		emit(kase{Kind: "alpn", Protos: chunks(prefixes[name], pad), Desc: name + " request padded to 20KiB"})
		ch := chunks(prefixes[name], raw)
		emit(kase{Kind: "alpn", Protos: append(append([]string{}, ch...), ch...), Desc: name + " request duplicated"})
		emit(kase{Kind: "alpn", Protos: ch[:len(ch)-1], Desc: name + " request, last chunk missing"})
		if len(ch) > 1 {
			emit(kase{Kind: "alpn", Protos: ch[1:], Desc: name + " request, first chunk missing"})
			rev := append([]string{}, ch...)
			rev[0], rev[len(rev)-1] = rev[len(rev)-1], rev[0]
			emit(kase{Kind: "alpn", Protos: rev, Desc: name + " request, chunks out of order"})
		}
	}
	// well-signed fetch requests whose nonce takes every shape the server dispatches on
	kp, ep := harness.NewCertKey("KP", w.seed), harness.NewEncKey("EP", w.seed)
	emptyTok, _ := proto.Marshal(&types.ServerLedActivationTokenNonce{})
	halfTok, _ := proto.Marshal(&types.ServerLedActivationTokenNonce{Nonce: harness.Bytes("half", 32)})
	nonces := map[string][]byte{
		"unknown-activation-token": harness.ForgedToken(w.seed), "consumed-activation-token": w.usedToken.Bytes, "token-without-fields": append(emptyTok, 0x1a, 0x00),
		"token-with-nonce-only": halfTok, "1-byte": {7}, "31-bytes": harness.Bytes("n31", 31), "33-bytes": harness.Bytes("n33", 33), "64-bytes": harness.Bytes("n64", 64), "4KiB": harness.Bytes("n4k", 4096),
	}
	for _, name := range sortedKeys(nonces) {
		n := nonces[name]
		req := harness.SignedRequest(harness.Info(kp, ep, n), kp)
		b, _ := proto.Marshal(req)
		emit(kase{Kind: "alpn", Protos: chunks(prefixes["fetch"], b), Desc: "well-signed fetch request with nonce " + name})
		// the same with sealed registration info attached (garbage and well-formed but foreign)
		wis := map[string][]byte{"garbage": []byte("not a blob"), "short-blob": {0x0a, 0x02, 0x01, 0x02}, "foreign-sealed": harness.SealRegistrationInfo(harness.Wrapper("someone-else", w.seed), kp.Pkix, n)}
		for _, wn := range sortedKeys(wis) {
			wi := wis[wn]
			info := harness.Info(kp, ep, n)
			info.WrappedRegistrationInfo = wi
			b, _ := proto.Marshal(harness.SignedRequest(info, kp))
			emit(kase{Kind: "alpn", Protos: chunks(prefixes["fetch"], b), Desc: "well-signed fetch request with nonce " + name + " and " + wn + " registration info"})
			emit(kase{Kind: "alpn", Protos: chunks(prefixes["fetch"], b), Desc: "well-signed fetch request with nonce " + name + " and " + wn + " registration info", NilWrapper: true})
		}
		r2 := harness.SignedRequest(harness.Info(kp, ep, n), kp)
		r2.RewrappedWrappingRegistrationFlowInfo, r2.RewrappingKeyId = []byte{0x0a, 0x01, 0x00}, w.honest.K.KeyId
		b2, _ := proto.Marshal(r2)
		emit(kase{Kind: "alpn", Protos: chunks(prefixes["fetch"], b2), Desc: "well-signed fetch request with nonce " + name + " and a malformed re-wrapped blob"})
	}
	// a genuine (replayed) authentication request behind certificates that carry no names at all
	for _, ck := range []string{"no-names", "outsider-no-names"} {
		emit(kase{Kind: "alpn", Protos: chunks(prefixes["auth"], auth), Desc: "honest authentication request presented with a self-signed certificate without names (" + ck + ")", Cert: ck})
	}
	emit(kase{Kind: "alpn", Protos: append(chunks(prefixes["fetch"], fetch), chunks(prefixes["auth"], auth)...), Desc: "fetch then auth request in one hello"})
	emit(kase{Kind: "alpn", Protos: append(chunks(prefixes["auth"], auth), chunks(prefixes["fetch"], fetch)...), Desc: "auth then fetch request in one hello"})
	emit(kase{Kind: "alpn", Protos: append(chunks(prefixes["auth"], auth), prefixes["pref"]+"nope", prefixes["pref"]+"nope2"), Desc: "auth request with two unknown certificate preferences"})
	// raw bytes
	raws := map[string][]byte{
		"empty-then-close":       {},
		"http":                   []byte("GET / HTTP/1.1\r\nHost: x\r\n\r\n"),
		"tls-header-truncated":   {0x16, 0x03, 0x01, 0x00, 0x40, 0x01, 0x00},
		"tls-header-oversized":   {0x16, 0x03, 0x01, 0xff, 0xff},
		"tls-alert":              {0x15, 0x03, 0x03, 0x00, 0x02, 0x02, 0x28},
		"tls-hello-garbage-body": append([]byte{0x16, 0x03, 0x01, 0x00, 0x20}, harness.Bytes("garbage-body", 32)...),
	}
	for n := 1; n <= 64; n++ {
		raws[fmt.Sprintf("seeded-%d", n)] = harness.Bytes(fmt.Sprintf("raw:%d:%d", n, c.Seed), n)
	}
	for _, name := range sortedKeys(raws) {
		b := raws[name]
		emit(kase{Kind: "raw", Raw: b, Desc: name})
	}
	// the server's own side of the connection fails at its k-th write / read
	for _, flow := range []string{"fetch", "auth"} {
		for _, after := range []string{"write", "read"} {
			for k := 1; k <= 10; k++ {
				emit(kase{Kind: "srvfault", Flow: flow, After: after, K: k, Desc: fmt.Sprintf("%s handshake: the server's %s #%d on the connection fails with a reset", flow, after, k)})
			}
		}
	}
	// drops at every step of honest handshakes
	for _, flow := range []string{"fetch", "auth"} {
		for _, after := range []string{"write", "read"} {
			for k := 0; k <= 12; k++ {
				emit(kase{Kind: "drop", Flow: flow, After: after, K: k, Desc: fmt.Sprintf("%s handshake dropped after %d client %ss", flow, k, after)})
			}
		}
	}
}

// sortedKeys: case enumeration must be identical in every worker process
// (shards take cases by number), so maps are never ranged over directly.
func sortedKeys(m map[string][]byte) []string {
	var ks []string
	for k := range m {
		ks = append(ks, k)
	}
	sort.Strings(ks)
	return ks
}

func protoBytesField(num int, b []byte) []byte {
	// tag (wire type 2) + varint length + bytes
	var out []byte
	tag := uint64(num<<3 | 2)
	for _, v := range []uint64{tag, uint64(len(b))} {
		for v >= 0x80 {
			out = append(out, byte(v)|0x80)
			v >>= 7
		}
		out = append(out, byte(v))
	}
	return append(out, b...)
}

// faultingConn is placed under the *server's* side of a connection: its k-th
// Write (or Read) fails with a connection reset, as when the peer aborts at
// exactly that point of the handshake.
type faultingConn struct {
	net.Conn
	after string
	k     int64
	n     int64
}

type resetError struct{}

func (resetError) Error() string   { return "write: connection reset by peer" }
func (resetError) Timeout() bool   { return false }
func (resetError) Temporary() bool { return false }

func (f *faultingConn) Write(p []byte) (int, error) {
	if f.after == "write" && atomic.AddInt64(&f.n, 1) == f.k {
		f.Conn.Close()
		return 0, &net.OpError{Op: "write", Net: "tcp", Err: resetError{}}
	}
	return f.Conn.Write(p)
}

func (f *faultingConn) Read(p []byte) (int, error) {
	if f.after == "read" && atomic.AddInt64(&f.n, 1) == f.k {
		f.Conn.Close()
		return 0, &net.OpError{Op: "read", Net: "tcp", Err: resetError{}}
	}
	return f.Conn.Read(p)
}

// faultFirst wraps only the first accepted connection.
type faultFirst struct {
	net.Listener
	after string
	k     int
	done  int32
}

func (l *faultFirst) Accept() (net.Conn, error) {
	c, err := l.Listener.Accept()
	if err == nil && atomic.CompareAndSwapInt32(&l.done, 0, 1) {
		return &faultingConn{Conn: c, after: l.after, k: int64(l.k)}, nil
	}
	return c, err
}

// droppingConn closes the connection after k writes or reads.
type droppingConn struct {
	net.Conn
	after string
	k     int64
	n     int64
	steps *int64
}

func (d *droppingConn) Write(p []byte) (int, error) {
	if d.after == "write" && atomic.LoadInt64(&d.n) >= d.k {
		d.Conn.Close()
		return 0, net.ErrClosed
	}
	n, err := d.Conn.Write(p)
	if d.after == "write" {
		atomic.AddInt64(&d.n, 1)
	}
	return n, err
}

func (d *droppingConn) Read(p []byte) (int, error) {
	if d.after == "read" && atomic.LoadInt64(&d.n) >= d.k {
		d.Conn.Close()
		return 0, net.ErrClosed
	}
	n, err := d.Conn.Read(p)
	if d.after == "read" {
		atomic.AddInt64(&d.n, 1)
	}
	return n, err
}

func (w *world) badClient(k kase, addr string) {
	raw, err := net.DialTimeout("tcp", addr, 10*time.Second)
	if err != nil {
		return
	}
	defer raw.Close()
	raw.SetDeadline(time.Now().Add(20 * time.Second))
	switch k.Kind {
	case "alpn":
		c := tls.Client(raw, &tls.Config{MinVersion: tls.VersionTLS12, InsecureSkipVerify: true, NextProtos: k.Protos,
			GetClientCertificate: func(*tls.CertificateRequestInfo) (*tls.Certificate, error) {
				switch k.Cert {
				case "no-names":
					return &tls.Certificate{Certificate: [][]byte{harness.SelfSignedCertNoNames(w.honest.K)}, PrivateKey: w.honest.K.Priv}, nil
				case "outsider-no-names":
					o := harness.NewCertKey("c14-outsider", w.seed)
					return &tls.Certificate{Certificate: [][]byte{harness.SelfSignedCertNoNames(o)}, PrivateKey: o.Priv}, nil
				}
				b := w.honest.Creds.CertificateBundles[0]
				return &tls.Certificate{Certificate: [][]byte{b.CertificateDer, b.CaCertificateDer}, PrivateKey: w.honest.K.Priv}, nil
			}})
		if c.Handshake() == nil {
			var b [1]byte
			c.SetReadDeadline(time.Now().Add(50 * time.Millisecond))
			c.Read(b[:])
		}
	case "raw":
		raw.Write(k.Raw)
		if tc, ok := raw.(*net.TCPConn); ok {
			tc.CloseWrite()
		}
		var b [64]byte
		raw.Read(b[:])
	case "srvfault":
		// an honest client; the fault is on the server's side of this connection
		var protos []string
		var chain [][]byte
		key := w.honest.K
		if k.Flow == "auth" {
			protos = chunks(prefixes["auth"], w.honestAuthRaw())
			b := w.honest.Creds.CertificateBundles[0]
			chain = [][]byte{b.CertificateDer, b.CaCertificateDer}
		} else {
			protos = chunks(prefixes["fetch"], w.honestFetchRaw())
			key = harness.NewCertKey("KP", w.seed)
			chain = [][]byte{harness.SelfSignedCert(key, nodeenrollment.CommonDnsName)}
		}
		c := tls.Client(raw, &tls.Config{MinVersion: tls.VersionTLS13, InsecureSkipVerify: true, NextProtos: protos,
			GetClientCertificate: func(*tls.CertificateRequestInfo) (*tls.Certificate, error) {
				return &tls.Certificate{Certificate: chain, PrivateKey: key.Priv}, nil
			}})
		if c.Handshake() == nil {
			var b [1]byte
			c.SetReadDeadline(time.Now().Add(2 * time.Second))
			c.Read(b[:])
		}
	case "drop":
		dc := &droppingConn{Conn: raw, after: k.After, k: int64(k.K)}
		var protos []string
		var chain [][]byte
		key := w.honest.K
		if k.Flow == "auth" {
			protos = chunks(prefixes["auth"], w.honestAuthRaw())
			b := w.honest.Creds.CertificateBundles[0]
			chain = [][]byte{b.CertificateDer, b.CaCertificateDer}
		} else {
			protos = chunks(prefixes["fetch"], w.honestFetchRaw())
			key = harness.NewCertKey("KP", w.seed)
			chain = [][]byte{harness.SelfSignedCert(key, nodeenrollment.CommonDnsName)}
		}
		c := tls.Client(dc, &tls.Config{MinVersion: tls.VersionTLS13, InsecureSkipVerify: true, NextProtos: protos,
			GetClientCertificate: func(*tls.CertificateRequestInfo) (*tls.Certificate, error) {
				return &tls.Certificate{Certificate: chain, PrivateKey: key.Priv}, nil
			}})
		c.Handshake()
	}
}

func (w *world) one(k kase, r *engine.Report) (string, string) {
	cfg := harness.ServerConfig{Storage: w.st.Clone(), Options: w.opts}
	if k.NilWrapper {
		var none *aead.Wrapper
		cfg.Options = []nodeenrollment.Option{nodeenrollment.WithRegistrationWrapper(none)}
	}
	if k.BaseTLS {
		cfg.BaseTLS = w.baseTLS
	}
	if k.Kind == "srvfault" {
		cfg.BaseWrap = func(l net.Listener) net.Listener { return &faultFirst{Listener: l, after: k.After, k: k.K} }
	}
	badAccepts := 0
	var followErr error
	rs, err := harness.Serve(cfg, func(addr string) {
		w.badClient(k, addr)
		// follow-up: an honest node must still get through on the same listener
		dctx, cancel := context.WithTimeout(harness.Ctx, 60*time.Second) // infrastructure guard only
		defer cancel()
		conn, e := protocol.Dial(dctx, w.honest.Store.Clone(), addr)
		followErr = e
		if conn != nil {
			conn.Close()
		}
	})
	defer harness.CloseAll(rs)
	if err != nil {
		r.InfraError(err.Error())
		return "", ""
	}
	desc := fmt.Sprintf("%s case %q (base TLS configuration: %v, typed-nil registration wrapper: %v)", k.Kind, k.Desc, k.BaseTLS, k.NilWrapper)
	authed := 0
	for i, a := range rs {
		if a.Panic != "" {
			return "panic:" + k.Kind + ":" + classOf(k), fmt.Sprintf("%s: Accept #%d panicked: %s", desc, i+1, a.Panic)
		}
		if a.Err != nil && !a.Temporary {
			return "non-temporary-error:" + k.Kind, fmt.Sprintf("%s: Accept #%d returned a non-temporary error: %v", desc, i+1, a.Err)
		}
		if a.Authenticated {
			authed++
		} else {
			badAccepts++
		}
	}
	if followErr != nil || authed == 0 {
		return "listener-stopped:" + k.Kind + ":" + classOf(k), fmt.Sprintf("%s: the follow-up honest dial failed (%v); accept results: %v", desc, followErr, rs)
	}
	r.Branch("survived:" + k.Kind)
	if badAccepts > 0 {
		r.Branch("bad-connection-reported-as-temporary-error-or-unauthenticated")
	}
	return "", ""
}

func classOf(k kase) string {
	switch k.Kind {
	case "alpn":
		if len(k.Desc) > 24 {
			return strings.Fields(k.Desc)[0]
		}
		return k.Desc
	case "drop", "srvfault":
		return k.Flow + "-" + k.After
	}
	return "bytes"
}

func run(c *engine.Ctx, r *engine.Report) {
	r.Need("survived:alpn", "survived:raw", "survived:drop", "survived:srvfault", "bad-connection-reported-as-temporary-error-or-unauthenticated", "closed-listener-non-temporary")
	w := newWorld(c.Seed)
	i := 0
	w.cases(c, func(k kase) {
		i++
		if !c.Mine(i) {
			return
		}
		if c.Expired() {
			r.Incomplete("deadline")
			return
		}
		k.Seed = c.Seed
		r.Eval(1)
		if sig, msg := w.one(k, r); sig != "" {
			if k.Kind == "alpn" && len(k.Protos) > 8 {
				k.Protos = nil // the description rebuilds it on replay
			}
			r.Violate(sig, msg, k)
			return
		}
		if !strings.Contains(k.Desc, "(clipped") {
			r.Nontrivial(1) // clipped truncations repeat the whole request
		}
		if i%211 == 7 {
			r.Sample(map[string]any{"kind": k.Kind, "desc": k.Desc, "base_tls": k.BaseTLS})
		}
	})
	// only closing the base listener yields a non-temporary error
	ln, err := net.Listen("tcp", "127.0.0.1:0")
	if err == nil {
		il, _ := protocol.NewInterceptingListener(&protocol.InterceptingListenerConfiguration{Context: harness.Ctx, Storage: w.st, BaseListener: ln})
		ln.Close()
		a := harness.AcceptOnce(il)
		if a.Err == nil || a.Temporary {
			r.Violate("closed-listener-temporary", "Accept on a closed base listener did not report a non-temporary error", kase{Kind: "closed"})
		} else {
			r.Branch("closed-listener-non-temporary")
		}
	}
}

func replay(c *engine.Ctx, raw json.RawMessage) (string, bool) {
	var k kase
	if err := json.Unmarshal(raw, &k); err != nil {
		return err.Error(), false
	}
	w := newWorld(k.Seed)
	if k.Kind == "alpn" && k.Protos == nil {
		w.cases(&engine.Ctx{Tier: "thorough", Seed: k.Seed}, func(x kase) {
			if x.Desc == k.Desc && x.BaseTLS == k.BaseTLS && x.NilWrapper == k.NilWrapper && x.Cert == k.Cert {
				k.Protos = x.Protos
			}
		})
	}
	sig, msg := w.one(k, engine.NewReport())
	if sig == "" {
		return fmt.Sprintf("case %q: holds", k.Desc), false
	}
	return sig + ": " + msg, true
}

func init() {
	engine.Register(&engine.CheckDef{
		ID:    "C14",
		Level: "fault_enumeration",
		Rule: "against the real InterceptingListener on a loopback socket, with and without an application base TLS configuration: ClientHello ALPN lists of 1-3 entries over the three library prefixes x suffixes {empty, shorter than the chunk header, header only, non-base64, random base64, three-digit header, hyphens, long}, honest fetch and authentication requests truncated at every length (quick: every third), padded to 20 KiB (>100 chunks), duplicated, with missing / reordered chunks, mixed prefixes; well-signed fetch requests whose nonce is an unknown / consumed / field-less activation token or has an odd size, alone and with garbage, short, foreign-sealed or malformed re-wrapped registration info (the sealed-info ones also against a listener whose registration wrapper option is a nil pointer of a concrete type); peers of the application's base TLS configuration whose completed handshake carries 255-/254-/1-byte, non-UTF-8 and NUL-containing protocol names; raw non-TLS byte strings (empty, HTTP, TLS record headers with truncated / oversized bodies, 1..64 seeded bytes); honest fetch and authentication handshakes dropped after the k-th client write / read for k = 0..12, and with the server's own k-th write / read on the connection failing with a reset for k = 1..10 (including the close-notify after a handled fetch); every case is followed by an honest Dial on the same listener; " +
			"distinct_nontrivial counts cases (distinct by construction) after which the follow-up dial was attempted and judged",
		Assumptions: []string{"peers that stall without closing are outside the quantifier (Accept handshakes synchronously by design)", "the application-supplied registration wrapper is wrapped in a length guard: robustness of go-kms-wrapping's aead wrapper against short ciphertexts is not the library's"},
		Shards:      func(c *engine.Ctx) int { return 16 },
		Run:         run,
		Replay:      replay,
	})
}
