// Package c04: honest enrollment always completes with correctly bound
// credentials (E4: flow x storage back end x storage wrapper x state x retry,
// and every substitution of the decrypting key / response fields on the node
// side, through the real node-side and server-side API and a final real dial).
package c04

import (
	"bytes"
	"crypto/ed25519"
	"crypto/x509"
	"encoding/json"
	"fmt"
	"os"
	"path/filepath"
	"strings"

	wrapping "github.com/hashicorp/go-kms-wrapping/v2"
	"github.com/hashicorp/go-kms-wrapping/v2/extras/multi"
	"github.com/hashicorp/nodeenrollment"
	"github.com/hashicorp/nodeenrollment/protocol"
	"github.com/hashicorp/nodeenrollment/registration"
	"github.com/hashicorp/nodeenrollment/rotation"
	"github.com/hashicorp/nodeenrollment/storage/file"
	"github.com/hashicorp/nodeenrollment/storage/inmem"
	storeonce "github.com/hashicorp/nodeenrollment/storage/testing"
	nodetls "github.com/hashicorp/nodeenrollment/tls"
	"github.com/hashicorp/nodeenrollment/types"
	vclock "github.com/hashicorp/nodeenrollment/zz_verif/vclock"
	"google.golang.org/protobuf/proto"
	"google.golang.org/protobuf/types/known/structpb"
	"verif/engine"
	"verif/harness"
)

type kase struct {
	Flow    string `json:"flow"`    // operator | token | wrapper | rewrapped
	Backend string `json:"backend"` // inmem | file | storeonce
	Wrapper bool   `json:"storage_wrapper"`
	State   bool   `json:"state"`
	Retry   bool   `json:"retry"`
	// Aged: the enrollment happens three virtual days after the roots were
	// created (and the final dial a day later) instead of right away
	Aged bool `json:"aged_roots"`
	// Late: the enrollment happens fifteen virtual days after the roots were
	// created and before the operator's next rotation call: the current root
	// has expired, the next one is valid (implies a virtual clock)
	Late bool `json:"late_rotation,omitempty"`
	// Pooled: the server's storage wrapper is a pool whose encrypting key is
	// rotated between the authorization and the fetch (needs Wrapper)
	Pooled bool `json:"pooled_wrapper,omitempty"`
	// ReplaceRoots: between the first fetch and the honest retry (wrapper flows)
	// the operator replaces the server's roots; the retry is answered under the new ones
	ReplaceRoots bool  `json:"roots_replaced_before_retry,omitempty"`
	Seed         int64 `json:"seed"`
}

func (k kase) String() string {
	return fmt.Sprintf("flow=%s backend=%s storage-wrapper=%v pooled=%v state=%v retry=%v aged-roots=%v late-rotation=%v roots-replaced-before-retry=%v", k.Flow, k.Backend, k.Wrapper, k.Pooled, k.State, k.Retry, k.Aged, k.Late, k.ReplaceRoots)
}

var dirSeq int

func newBackend(name string) (nodeenrollment.Storage, func()) {
	switch name {
	case "file":
		dirSeq++
		dir := filepath.Join(engine.VerifRoot(), ".work", "c04", fmt.Sprintf("%d-%d", os.Getpid(), dirSeq))
		s, err := file.New(harness.Ctx, file.WithBaseDirectory(dir))
		if err != nil {
			panic(err)
		}
		return s, func() { os.RemoveAll(dir) }
	case "storeonce":
		s, err := storeonce.New(harness.Ctx)
		if err != nil {
			panic(err)
		}
		return s, func() {}
	}
	s, _ := inmem.New(harness.Ctx)
	return s, func() {}
}

type world struct {
	seed   int64
	sw, nw wrapping.Wrapper // server / node storage wrappers
	sw2    wrapping.Wrapper // the server's next KMS key (pooled configurations)
	rw     wrapping.Wrapper // registration wrapper
}

func newWorld(seed int64) *world {
	return &world{seed: seed, sw: harness.Wrapper("server-storage", seed), sw2: harness.Wrapper("server-storage-next-key", seed), nw: harness.Wrapper("node-storage", seed), rw: harness.Wrapper("registration", seed)}
}

var (
	appState  = harness.Struct(map[string]any{"external-id": "w_1234"})
	appParams = harness.Struct(map[string]any{"name": "worker-7", "tags": []any{"a", "b"}})
)

func sameStruct(a, b *structpb.Struct) bool {
	if a == nil {
		a = &structpb.Struct{}
	}
	if b == nil {
		b = &structpb.Struct{}
	}
	return (len(a.Fields) == 0 && len(b.Fields) == 0) || proto.Equal(a, b)
}

// enrollOther enrolls a second, unrelated node on the same server and returns a
// response addressed to it (for field substitutions).
func (w *world) otherResponse(srv nodeenrollment.Storage, sopt []nodeenrollment.Option) (*types.FetchNodeCredentialsResponse, *harness.EncKey) {
	k, e := harness.NewCertKey("other", w.seed), harness.NewEncKey("other-enc", w.seed)
	req := harness.SignedRequest(harness.Info(k, e, harness.Bytes("other-nonce", 32)), k)
	if _, err := registration.AuthorizeNode(harness.Ctx, srv, req, sopt...); err != nil {
		panic(err)
	}
	resp, err := registration.FetchNodeCredentials(harness.Ctx, srv, req, sopt...)
	if err != nil {
		panic(err)
	}
	return resp, e
}

func (w *world) one(k kase, r *engine.Report) (string, string) {
	vclock.Reset()
	defer vclock.Reset()
	if k.Aged || k.Late {
		vclock.Freeze(harness.T0)
	}
	enrollDay := 3
	if k.Late {
		enrollDay = 15
	}
	fail := func(sig, format string, a ...any) (string, string) {
		return sig + ":" + k.Flow, "[" + k.String() + "] " + fmt.Sprintf(format, a...)
	}
	srv, cleanup := newBackend(k.Backend)
	defer cleanup()
	node := harness.NewMemStore()
	var sopt, nopt []nodeenrollment.Option
	var pool *multi.PooledWrapper
	if k.Wrapper {
		var sw wrapping.Wrapper = w.sw
		if k.Pooled {
			var err error
			if pool, err = multi.NewPooledWrapper(harness.Ctx, w.sw); err != nil {
				panic(err)
			}
			sw = pool
		}
		sopt = append(sopt, nodeenrollment.WithStorageWrapper(sw))
		nopt = append(nopt, nodeenrollment.WithStorageWrapper(w.nw))
	}
	roots, err := rotation.RotateRootCertificates(harness.Ctx, srv, sopt...)
	if err != nil {
		return fail("setup", "root creation failed: %v", err)
	}
	if k.Aged || k.Late {
		vclock.Freeze(harness.T0.AddDate(0, 0, enrollDay))
	}
	// a registered upstream node R for the re-wrapped flow
	rk, re := harness.NewCertKey("R", w.seed), harness.NewEncKey("R-enc", w.seed)
	var rCreds *types.NodeCredentials
	if k.Flow == "rewrapped" {
		rreq := harness.SignedRequest(harness.Info(rk, re, harness.Bytes("r-nonce", 32)), rk)
		rinfo, err := registration.AuthorizeNode(harness.Ctx, srv, rreq, sopt...)
		if err != nil {
			return fail("setup", "upstream authorization failed: %v", err)
		}
		rCreds = harness.NodeCreds(rk, re, nil)
		rCreds.ServerEncryptionPublicKeyBytes, rCreds.ServerEncryptionPublicKeyType = harness.ServerPub(rinfo), types.KEYTYPE_X25519
	}

	// ---- node side: create credentials and the request
	var token string
	var createOpt, reqOpt, fetchOpt, handleOpt []nodeenrollment.Option
	createOpt = append(createOpt, nopt...)
	handleOpt = append(handleOpt, nopt...)
	fetchOpt = append(fetchOpt, sopt...)
	var wantState *structpb.Struct
	switch k.Flow {
	case "token":
		var topt []nodeenrollment.Option
		topt = append(topt, sopt...)
		if k.State {
			topt = append(topt, nodeenrollment.WithState(appState))
			wantState = appState
		}
		_, token, err = registration.CreateServerLedActivationToken(harness.Ctx, srv, &types.ServerLedRegistrationRequest{}, topt...)
		if err != nil {
			return fail("token-creation", "%v", err)
		}
		createOpt = append(createOpt, nodeenrollment.WithActivationToken(token))
		reqOpt = append(reqOpt, nodeenrollment.WithActivationToken(token))
		handleOpt = append(handleOpt, nodeenrollment.WithActivationToken(token))
	case "wrapper", "rewrapped":
		reqOpt = append(reqOpt, nodeenrollment.WithRegistrationWrapper(w.rw))
		if k.State {
			reqOpt = append(reqOpt, nodeenrollment.WithWrappingRegistrationFlowApplicationSpecificParams(appParams))
		}
		if k.Flow == "wrapper" {
			fetchOpt = append(fetchOpt, nodeenrollment.WithRegistrationWrapper(w.rw))
		}
	}
	creds, err := types.NewNodeCredentials(harness.Ctx, node, createOpt...)
	if err != nil {
		return fail("node-create", "NewNodeCredentials failed: %v", err)
	}
	req, err := creds.CreateFetchNodeCredentialsRequest(harness.Ctx, reqOpt...)
	if err != nil {
		return fail("node-request", "CreateFetchNodeCredentialsRequest failed: %v", err)
	}
	reqNonce := creds.RegistrationNonce
	reqInfo := new(types.FetchNodeCredentialsInfo)
	proto.Unmarshal(req.Bundle, reqInfo)
	reqNonce = reqInfo.Nonce
	keyId, _ := nodeenrollment.KeyIdFromPkix(creds.CertificatePublicKeyPkix)

	switch k.Flow {
	case "operator":
		// before authorization the node is told to wait and nothing is stored
		pre, err := registration.FetchNodeCredentials(harness.Ctx, srv, req, fetchOpt...)
		if err != nil || harness.HasCreds(pre) {
			return fail("pre-authorization", "fetch before authorization: creds=%v err=%v", harness.HasCreds(pre), err)
		}
		aopt := append([]nodeenrollment.Option{}, sopt...)
		if k.State {
			aopt = append(aopt, nodeenrollment.WithState(appState))
			wantState = appState
		}
		if _, err := registration.AuthorizeNode(harness.Ctx, srv, req, aopt...); err != nil {
			return fail("authorize", "AuthorizeNode failed: %v", err)
		}
		// the same node, same certificate key and nonce, but a request signed over a
		// *different* encryption key: whatever comes back must be for the key in that request
		rekeyed := proto.Clone(creds).(*types.NodeCredentials)
		rekeyed.EncryptionPrivateKeyBytes = harness.NewEncKey("rekeyed", w.seed).Priv
		if rreq, err := rekeyed.CreateFetchNodeCredentialsRequest(harness.Ctx, reqOpt...); err == nil {
			if rresp, err := registration.FetchNodeCredentials(harness.Ctx, srv, rreq, fetchOpt...); err == nil && harness.HasCreds(rresp) {
				rekeyed.ServerEncryptionPublicKeyBytes, rekeyed.ServerEncryptionPublicKeyType = rresp.ServerEncryptionPublicKeyBytes, rresp.ServerEncryptionPublicKeyType
				if derr := nodeenrollment.DecryptMessage(harness.Ctx, rresp.EncryptedNodeCredentials, rekeyed, new(types.NodeCredentials)); derr != nil {
					return fail("response-not-for-signed-key", "a request signed over another encryption key was answered with credentials that this key cannot open (they are bound to the key seen at authorization): %v", derr)
				}
			}
			r.Branch("rekeyed-request-probed")
		}
	case "rewrapped":
		// the upstream node opens the sealed info with the registration wrapper and re-seals it for the server
		info, err := registration.DecryptWrappedRegistrationInfo(harness.Ctx, reqInfo, nodeenrollment.WithRegistrationWrapper(w.rw))
		if err != nil {
			return fail("upstream-unwrap", "%v", err)
		}
		req.RewrappedWrappingRegistrationFlowInfo, err = nodeenrollment.EncryptMessage(harness.Ctx, info, rCreds)
		if err != nil {
			return fail("upstream-rewrap", "%v", err)
		}
		req.RewrappingKeyId = rk.KeyId
	}

	// ---- the KMS key behind the server's storage wrapper is rotated: records
	// written so far stay readable through the pool
	if pool != nil {
		if _, err := pool.SetEncryptingWrapper(harness.Ctx, w.sw2); err != nil {
			panic(err)
		}
	}

	// ---- fetch (and the honest retry)
	resp, err := registration.FetchNodeCredentials(harness.Ctx, srv, req, fetchOpt...)
	if err != nil || !harness.HasCreds(resp) {
		return fail("fetch", "the honest fetch after authorization did not return credentials: %v", err)
	}
	if k.Retry {
		if k.ReplaceRoots {
			if roots, err = rotation.RotateRootCertificates(harness.Ctx, srv, append(append([]nodeenrollment.Option{}, sopt...), nodeenrollment.WithReinitializeRoots(true))...); err != nil {
				return fail("setup", "root replacement failed: %v", err)
			}
		}
		resp, err = registration.FetchNodeCredentials(harness.Ctx, srv, req, fetchOpt...)
		if err != nil || !harness.HasCreds(resp) {
			return fail("fetch-retry", "an honest retry of the same fetch did not return credentials: %v", err)
		}
	}

	// ---- the response
	curRoots, err := types.LoadRootCertificates(harness.Ctx, srv, sopt...)
	if err != nil || !proto.Equal(curRoots.Current, roots.Current) {
		return fail("roots", "roots changed or cannot be loaded: %v", err)
	}
	curCA, _ := x509.ParseCertificate(curRoots.Current.CertificateDer)
	nextCA, _ := x509.ParseCertificate(curRoots.Next.CertificateDer)
	if !ed25519.Verify(curCA.PublicKey.(ed25519.PublicKey), resp.EncryptedNodeCredentials, resp.EncryptedNodeCredentialsSignature) {
		return fail("response-signature", "the response is not signed by the server's current root")
	}
	stored, err := types.LoadNodeInformation(harness.Ctx, srv, keyId, sopt...)
	if err != nil {
		return fail("stored-record", "the node record cannot be loaded: %v", err)
	}
	if !bytes.Equal(harness.ServerPub(stored), resp.ServerEncryptionPublicKeyBytes) {
		return fail("stored-record", "the response's server key is not the public half of the stored server key")
	}
	if !bytes.Equal(stored.RegistrationNonce, reqNonce) || !bytes.Equal(stored.EncryptionPublicKeyBytes, reqInfo.EncryptionPublicKeyBytes) || !bytes.Equal(stored.CertificatePublicKeyPkix, creds.CertificatePublicKeyPkix) {
		return fail("stored-record", "the stored node record does not carry the request's nonce / keys")
	}
	if !sameStruct(stored.State, wantState) {
		return fail("stored-state", "stored state %v, want %v", stored.State, wantState)
	}
	if k.Flow == "wrapper" || k.Flow == "rewrapped" {
		var wantParams *structpb.Struct
		if k.State {
			wantParams = appParams
		}
		if stored.WrappingRegistrationFlowInfo == nil || !sameStruct(stored.WrappingRegistrationFlowInfo.ApplicationSpecificParams, wantParams) {
			return fail("stored-params", "application specific parameters were not carried into the node record")
		}
	}
	// open it the way only the node can
	nodeKeys := func(enc []byte) *types.NodeCredentials {
		c := proto.Clone(creds).(*types.NodeCredentials)
		c.EncryptionPrivateKeyBytes = enc
		c.ServerEncryptionPublicKeyBytes, c.ServerEncryptionPublicKeyType = resp.ServerEncryptionPublicKeyBytes, resp.ServerEncryptionPublicKeyType
		return c
	}
	inner := new(types.NodeCredentials)
	if err := nodeenrollment.DecryptMessage(harness.Ctx, resp.EncryptedNodeCredentials, nodeKeys(creds.EncryptionPrivateKeyBytes), inner); err != nil {
		return fail("response-not-for-node", "the node's encryption key does not open the response: %v", err)
	}
	otherEnc := harness.NewEncKey("intruder", w.seed)
	if err := nodeenrollment.DecryptMessage(harness.Ctx, resp.EncryptedNodeCredentials, nodeKeys(otherEnc.Priv), new(types.NodeCredentials)); err == nil {
		return fail("response-opens-with-other-key", "another encryption key opens the response")
	}
	if !bytes.Equal(inner.RegistrationNonce, reqNonce) {
		return fail("nonce-echo", "the response does not echo the request's nonce")
	}
	if len(inner.CertificateBundles) != 2 || !proto.Equal(&types.NodeInformation{CertificateBundles: inner.CertificateBundles}, &types.NodeInformation{CertificateBundles: stored.CertificateBundles}) {
		return fail("bundles", "the response carries %d bundles or they differ from the stored record's", len(inner.CertificateBundles))
	}
	for i, b := range inner.CertificateBundles {
		ca := []*x509.Certificate{curCA, nextCA}[i]
		if !bytes.Equal(b.CaCertificateDer, ca.Raw) {
			return fail("bundle-ca", "bundle %d is not issued by the server's %s root", i, []string{"current", "next"}[i])
		}
		leaf, err := x509.ParseCertificate(b.CertificateDer)
		if err != nil {
			return fail("leaf-parse", "%v", err)
		}
		pk, _ := x509.MarshalPKIXPublicKey(leaf.PublicKey)
		hasName := false
		for _, n := range leaf.DNSNames {
			if n == keyId {
				hasName = true
			}
		}
		switch {
		case leaf.CheckSignatureFrom(ca) != nil:
			return fail("leaf-signature", "leaf %d is not signed by its root", i)
		case leaf.IsCA:
			return fail("leaf-is-ca", "leaf %d is a CA certificate", i)
		case len(leaf.ExtKeyUsage) != 1 || leaf.ExtKeyUsage[0] != x509.ExtKeyUsageClientAuth:
			return fail("leaf-eku", "leaf %d has extended key usages %v, want client-auth only", i, leaf.ExtKeyUsage)
		case leaf.KeyUsage&x509.KeyUsageCertSign != 0:
			return fail("leaf-certsign", "leaf %d may sign certificates", i)
		case !bytes.Equal(pk, creds.CertificatePublicKeyPkix):
			return fail("leaf-key", "leaf %d certifies a key other than the node's", i)
		case !bytes.Equal(leaf.SubjectKeyId, creds.CertificatePublicKeyPkix):
			return fail("leaf-ski", "leaf %d has a subject key id other than the node's key", i)
		case leaf.Subject.CommonName != keyId || !hasName:
			return fail("leaf-name", "leaf %d is not named by the node's key id", i)
		case leaf.NotAfter.After(ca.NotAfter) || (!leaf.NotBefore.After(ca.NotAfter) && leaf.NotBefore.Before(ca.NotBefore)):
			// (a leaf under a root that has already expired has no instant at
			// which it is valid; only "does not outlive its root" applies)
			return fail("leaf-validity", "leaf %d is valid %v..%v, outside its root's %v..%v", i, leaf.NotBefore, leaf.NotAfter, ca.NotBefore, ca.NotAfter)
		}
	}

	// ---- node-side substitutions must be refused
	load := func() *types.NodeCredentials {
		c, err := types.LoadNodeCredentials(harness.Ctx, node.Clone(), nodeenrollment.CurrentId, nopt...)
		if err != nil {
			panic(err)
		}
		return c
	}
	tryHandle := func(c *types.NodeCredentials, rsp *types.FetchNodeCredentialsResponse) error {
		_, err := c.HandleFetchNodeCredentialsResponse(harness.Ctx, harness.NewMemStore(), rsp, append(append([]nodeenrollment.Option{}, handleOpt...), nodeenrollment.WithSkipStorage(true))...)
		return err
	}
	oResp, _ := w.otherResponse(srv, sopt)
	subs := map[string]func() error{
		"other-decrypting-key": func() error {
			c := load()
			c.EncryptionPrivateKeyBytes = otherEnc.Priv
			return tryHandle(c, resp)
		},
		"other-node-ciphertext": func() error {
			m := proto.Clone(resp).(*types.FetchNodeCredentialsResponse)
			m.EncryptedNodeCredentials = oResp.EncryptedNodeCredentials
			return tryHandle(load(), m)
		},
		"other-node-server-key": func() error {
			m := proto.Clone(resp).(*types.FetchNodeCredentialsResponse)
			m.ServerEncryptionPublicKeyBytes = oResp.ServerEncryptionPublicKeyBytes
			return tryHandle(load(), m)
		},
		"whole-other-response": func() error { return tryHandle(load(), oResp) },
		"different-nonce": func() error {
			if k.Flow == "token" {
				// the node compares against the token it was given
				ho := append([]nodeenrollment.Option{}, nopt...)
				ho = append(ho, nodeenrollment.WithActivationToken("neslat_"+strings.Repeat("2", 60)), nodeenrollment.WithSkipStorage(true))
				_, err := load().HandleFetchNodeCredentialsResponse(harness.Ctx, harness.NewMemStore(), resp, ho...)
				return err
			}
			c := load()
			c.RegistrationNonce = harness.Bytes("some-other-nonce", 32)
			return tryHandle(c, resp)
		},
	}
	// a response somebody else built for this node's public key, echoing another nonce
	rogueResponse := func() *types.FetchNodeCredentialsResponse {
		rk := harness.NewEncKey("rogue-server", w.seed)
		src := &types.NodeInformation{CertificatePublicKeyPkix: creds.CertificatePublicKeyPkix, ServerEncryptionPrivateKeyBytes: rk.Priv, ServerEncryptionPrivateKeyType: types.KEYTYPE_X25519,
			EncryptionPublicKeyBytes: reqInfo.EncryptionPublicKeyBytes, EncryptionPublicKeyType: types.KEYTYPE_X25519}
		ct, err := nodeenrollment.EncryptMessage(harness.Ctx, &types.NodeCredentials{RegistrationNonce: harness.Bytes("rogue-nonce", 32), CertificateBundles: inner.CertificateBundles}, src)
		if err != nil {
			panic(err)
		}
		return &types.FetchNodeCredentialsResponse{EncryptedNodeCredentials: ct, ServerEncryptionPublicKeyBytes: rk.Pub, ServerEncryptionPublicKeyType: types.KEYTYPE_X25519}
	}
	subs["foreign-response-other-nonce"] = func() error { return tryHandle(load(), rogueResponse()) }
	for name, f := range subs {
		if f() == nil {
			return fail("substitution-accepted:"+name, "the node accepted a response with substitution %q", name)
		}
		r.Branch("substitution-refused")
	}

	// ---- the node handles the genuine response, stores, and connects
	final, err := load().HandleFetchNodeCredentialsResponse(harness.Ctx, node, resp, handleOpt...)
	if err != nil {
		return fail("node-handle", "the node could not handle the genuine response: %v", err)
	}
	storedCreds, err := types.LoadNodeCredentials(harness.Ctx, node, nodeenrollment.CurrentId, nopt...)
	if err != nil || !proto.Equal(storedCreds, final) || len(storedCreds.CertificateBundles) != 2 {
		return fail("node-store", "the node's stored credentials are not the handled ones: %v", err)
	}
	// once enrolled, the node must still refuse a response that echoes a nonce it never sent
	if tryHandle(load(), rogueResponse()) == nil {
		return fail("substitution-accepted:after-enrollment", "after completing its enrollment the node accepted a foreign response echoing another nonce (it would overwrite the stored certificates)")
	}
	r.Branch("substitution-refused-after-enrollment")
	confs, err := nodetls.ClientConfigs(harness.Ctx, storedCreds)
	if err != nil || len(confs) == 0 {
		return fail("client-configs", "stored credentials yield no client TLS configuration: %v", err)
	}
	if k.Aged || k.Late {
		vclock.Freeze(harness.T0.AddDate(0, 0, enrollDay+1))
	}
	var derr error
	rs, serr := harness.Serve(harness.ServerConfig{Storage: srv, Options: sopt}, func(addr string) {
		conn, e := protocol.Dial(harness.Ctx, node, addr, nopt...)
		derr = e
		if conn != nil {
			conn.Close()
		}
	})
	defer harness.CloseAll(rs)
	if serr != nil {
		r.InfraError(serr.Error())
		return "", ""
	}
	authed := false
	for _, a := range rs {
		authed = authed || a.Authenticated
	}
	if derr != nil || !authed {
		return fail("dial", "the enrolled node could not connect to its own server: %v (accepts: %v)", derr, rs)
	}
	r.Branch("enrolled:" + k.Flow)
	r.Branch("backend:" + k.Backend)
	return "", ""
}

func cases() []kase {
	var out []kase
	for _, f := range []string{"operator", "token", "wrapper", "rewrapped"} {
		for _, b := range []string{"inmem", "file", "storeonce"} {
			for _, w := range []bool{false, true} {
				for _, s := range []bool{false, true} {
					for _, re := range []bool{false, true} {
						if f == "token" && re {
							continue // a token is single-use: the honest retry of a token fetch must fail (C06)
						}
						out = append(out, kase{Flow: f, Backend: b, Wrapper: w, State: s, Retry: re}, kase{Flow: f, Backend: b, Wrapper: w, State: s, Retry: re, Aged: true},
							kase{Flow: f, Backend: b, Wrapper: w, State: s, Retry: re, Late: true})
						if w {
							out = append(out, kase{Flow: f, Backend: b, Wrapper: w, Pooled: true, State: s, Retry: re})
						}
						if re && (f == "wrapper" || f == "rewrapped") && b != "storeonce" {
							out = append(out, kase{Flow: f, Backend: b, Wrapper: w, State: s, Retry: re, ReplaceRoots: true})
						}
					}
				}
			}
		}
	}
	return out
}

func run(c *engine.Ctx, r *engine.Report) {
	r.Need("enrolled:operator", "enrolled:token", "enrolled:wrapper", "enrolled:rewrapped", "backend:inmem", "backend:file", "backend:storeonce", "substitution-refused", "substitution-refused-after-enrollment", "rekeyed-request-probed")
	w := newWorld(c.Seed)
	for i, k := range cases() {
		if !c.Mine(i) {
			continue
		}
		k.Seed = c.Seed
		r.Eval(1)
		if sig, msg := w.one(k, r); sig != "" {
			r.Violate(sig, msg, k)
			continue
		}
		r.Nontrivial(1)
		if i%13 == 0 {
			r.Sample(k)
		}
	}
}

func replay(c *engine.Ctx, raw json.RawMessage) (string, bool) {
	var k kase
	if err := json.Unmarshal(raw, &k); err != nil {
		return err.Error(), false
	}
	sig, msg := newWorld(k.Seed).one(k, engine.NewReport())
	if sig == "" {
		return fmt.Sprintf("case %s: holds", k), false
	}
	return sig + ": " + msg, true
}

func init() {
	engine.Register(&engine.CheckDef{
		ID:    "C04",
		Level: "exploration",
		Rule: "flow {operator-authorized, activation token, wrapper, re-wrapped by an upstream node} x storage back end {inmem, file, store-once} x storage wrapper {off,on} x application state / parameters {none, some} x honest retry {no, yes; not for tokens} = 84 configurations, each enrolled right after root creation, three virtual days later and fifteen virtual days later (the current root expired, the next valid, before the next rotation call), plus the 42 wrapper configurations with a pooled storage wrapper whose encrypting key is rotated between authorization and fetch and the wrapper-flow retries again with the server's roots replaced between fetch and retry (310 runs), through the real node-side and server-side API; in each, 6 node-side substitutions (other decrypting key, another node's ciphertext / server key / whole response, different nonce, a foreign response for the node's key echoing another nonce - also after the enrollment completed), a fetch re-signed over another encryption key and a final real Dial to a listener over the same store; every issued certificate is parsed and checked; " +
			"distinct_nontrivial counts configurations (distinct by construction) that ran to the final dial",
		Assumptions: []string{"keys of an enrollment are freshly random (the library's own generators); the check is about bindings, not about key values"},
		Shards:      func(c *engine.Ctx) int { return 12 },
		Run:         run,
		Replay:      replay,
	})
}
