//go:build vsched

package c17

import (
	"errors"
	"fmt"
	"net"
	"sort"
	"strings"
	"sync"

	"github.com/hashicorp/nodeenrollment"
	nenet "github.com/hashicorp/nodeenrollment/net"
	"github.com/hashicorp/nodeenrollment/protocol"
	vrt "github.com/hashicorp/nodeenrollment/zz_verif/vrt"
	"verif/engine"
	"verif/harness"
)

// The sub-listener registry is get-or-create: under every interleaving of
// concurrent GetListener calls (and of the split listener stopping), all
// callers asking for one name hold the one registered object - a caller left
// with an unregistered sub-listener would never be handed the connections
// routed to that name - and every handle reports closed once the split
// listener stopped.

// closedBase is a base listener that is already closed.
type closedBase struct{}

func (closedBase) Accept() (net.Conn, error) { return nil, net.ErrClosed }
func (closedBase) Close() error              { return nil }
func (closedBase) Addr() net.Addr            { return &net.TCPAddr{} }

type regObs struct {
	mu        sync.Mutex
	sl        *nenet.SplitListener
	handles   map[string][]net.Listener
	errs      []string
	started   bool
	stopped   bool
	done      int
	judged    bool
	again     map[string]net.Listener
	acceptErr map[string]error
}

func registryBody(sc registryScenario) *regObs {
	o := &regObs{handles: map[string][]net.Listener{}, again: map[string]net.Listener{}, acceptErr: map[string]error{}}
	il, err := protocol.NewInterceptingListener(&protocol.InterceptingListenerConfiguration{Context: harness.Ctx, Storage: harness.NewMemStore(), BaseListener: closedBase{}})
	if err != nil {
		panic(err)
	}
	o.sl, err = nenet.NewSplitListener(il)
	if err != nil {
		panic(err)
	}
	vrt.Register(o.sl)
	for _, n := range sc.Pre {
		ln, err := o.sl.GetListener(n)
		if err != nil {
			panic(err)
		}
		o.handles[n] = append(o.handles[n], ln)
	}
	for i, g := range sc.Getters {
		name, native := g, false
		if strings.HasSuffix(g, "/native") {
			name, native = strings.TrimSuffix(g, "/native"), true
		}
		_ = i
		vrt.Go(func() {
			ln, err := o.sl.GetListener(name, nodeenrollment.WithNativeConns(native))
			o.mu.Lock()
			defer o.mu.Unlock()
			o.done++
			if err != nil {
				if !errors.Is(err, net.ErrClosed) {
					o.errs = append(o.errs, err.Error())
				}
				return
			}
			o.handles[name] = append(o.handles[name], ln)
		})
	}
	total := len(sc.Getters)
	if sc.Stop {
		total++
		o.started = true
		vrt.Go(func() {
			o.sl.Start() // the base listener is closed: cancels and closes every registered sub-listener
			o.mu.Lock()
			o.stopped = true
			o.done++
			o.mu.Unlock()
		})
	}
	// the judge's own calls run as a last thread once every other one is done
	// (they take locks and spawn, which only the scheduler may order)
	vrt.Go(func() {
		vrt.Await(func() bool { return o.done == total }, "join")
		names := make([]string, 0, len(o.handles))
		for n := range o.handles {
			names = append(names, n)
		}
		sort.Strings(names)
		for _, n := range names {
			if !o.started {
				again, err := o.sl.GetListener(n)
				if err != nil {
					o.errs = append(o.errs, "after the race: "+err.Error())
					continue
				}
				o.again[n] = again
			} else {
				// blocks forever (reported as a deadlock) if the sub-listener is not closed
				_, err := o.handles[n][0].Accept()
				o.acceptErr[n] = err
				// the application closes its handle; a GetListener that raced
				// with the stop is documented to leave the channel open until then
				o.handles[n][0].Close()
			}
		}
		o.judged = true
	})
	return o
}

func registryJudge(sc registryScenario, o *regObs) (msg string) {
	if len(o.errs) > 0 {
		return "error: GetListener failed: " + o.errs[0]
	}
	if o.started && !o.stopped {
		return "start-not-returned: Start did not return although the base listener is closed"
	}
	if !o.judged {
		return "error: the joining thread did not finish"
	}
	names := make([]string, 0, len(o.handles))
	for n := range o.handles {
		names = append(names, n)
	}
	sort.Strings(names)
	for _, n := range names {
		hs := o.handles[n]
		for _, h := range hs[1:] {
			if h != hs[0] {
				return fmt.Sprintf("two-objects: two callers of GetListener(%q) hold different sub-listeners; connections routed to that name reach only one of them", n)
			}
		}
		if !o.started {
			// the registry still answers with the object the callers hold
			if o.again[n] != hs[0] {
				return fmt.Sprintf("unregistered: the sub-listener callers of GetListener(%q) hold is not the registered one", n)
			}
		} else if err := o.acceptErr[n]; !errors.Is(err, net.ErrClosed) {
			return fmt.Sprintf("not-closed: sub-listener %q answered %v after the split listener stopped", n, err)
		}
	}
	return ""
}

func registryOutcome(o *regObs) string {
	var p []string
	for n, hs := range o.handles {
		p = append(p, fmt.Sprintf("%s=%d", n, len(hs)))
	}
	sort.Strings(p)
	return strings.Join(p, ",")
}

func registryConfig(sc registryScenario, c *engine.Ctx, bound int) engine.DFSConfig {
	return engine.DFSConfig{
		Name: sc.String(), Bound: bound, Deadline: c.Deadline, MaxSteps: 5000,
		Body:  func() any { return registryBody(sc) },
		Check: func(x *vrt.Execution, ob any) string { return registryJudge(sc, ob.(*regObs)) },
		Outcome: func(x *vrt.Execution, ob any) string {
			if x.Failure != "" {
				return x.FailKind
			}
			return registryOutcome(ob.(*regObs))
		},
	}
}

func registryScenarios(c *engine.Ctx) []registryScenario {
	auth := nenet.AuthenticatedNonSpecificNextProto
	scs := []registryScenario{
		{Getters: []string{"svc", "svc"}},
		{Getters: []string{"svc", "svc/native"}},
		{Getters: []string{"svc", "svc", "other"}},
		{Getters: []string{auth, auth}},
		{Pre: []string{"svc"}, Getters: []string{"svc", "svc"}},
		{Getters: []string{"svc", "svc"}, Stop: true},
		{Pre: []string{"svc"}, Getters: []string{"svc", "other"}, Stop: true},
	}
	if c.Thorough() {
		scs = append(scs,
			registryScenario{Getters: []string{"svc", "svc", "svc"}},
			registryScenario{Getters: []string{"svc", "svc", "other", "other"}},
			registryScenario{Getters: []string{"svc", "svc", "svc"}, Stop: true},
		)
	}
	return scs
}

func schedRun(c *engine.Ctx, r *engine.Report) {
	r.Need("registry:explored", "registry:several-outcomes")
	scs := registryScenarios(c)
	for si, sc := range scs {
		if !c.Mine(si) {
			continue
		}
		// preemption-bounded here; the unbounded pass below covers every
		// interleaving of the two-caller scenarios up to sleep-set equivalence
		bound := 2
		if sc.Stop {
			// the stop scenarios run eight threads (three short drain
			// goroutines among them): one preemption less
			bound = 1
		}
		if c.Thorough() {
			bound++
		}
		if len(sc.Getters) > 3 || (sc.Stop && len(sc.Getters) > 2) {
			bound = 2 // thorough-only scenarios with nine and more threads
		}
		cfg := registryConfig(sc, c, bound)
		res := engine.RunDFS(cfg)
		r.Eval(int64(res.Executions))
		r.Traces += int64(res.Executions)
		r.AddExtra("registry_schedules_explored", float64(res.Executions))
		r.AddExtra("registry_scenarios", 1)
		r.Extra[fmt.Sprintf("registry_preemption_bound[%s]", sc)] = float64(bound)
		if !res.Exhaustive {
			r.Incomplete(fmt.Sprintf("registry scenario {%s} cut by the deadline after %d schedules", sc, res.Executions))
		}
		r.Branch("registry:explored")
		if len(res.Outcomes) > 1 || sc.Stop == false {
			r.Branch("registry:several-outcomes")
		}
		for o, n := range res.Outcomes {
			r.Outcomes[fmt.Sprintf("registry {%s} %s", sc, o)] += int64(n)
		}
		r.Nontrivial(int64(len(res.Outcomes)))
		for _, v := range res.Violations {
			kind := v.Message
			if i := strings.Index(kind, ":"); i > 0 {
				kind = kind[:i]
			}
			if strings.HasPrefix(v.Message, "deadlock") {
				kind = "deadlock"
			} else if strings.HasPrefix(v.Message, "panic") {
				kind = "panic"
			}
			r.Violate("registry:"+kind, fmt.Sprintf("registry scenario {%s}, schedule %v: %s", sc, v.Choices, v.Message), registryReplay{SchedPhase: true, Scenario: sc, Choices: v.Choices, Bound: bound})
		}
		// (with a pre-registered name or the stop thread the unbounded pass does
		// not finish within the thorough budget: > 2*10^7 executions)
		if len(sc.Getters) == 2 && !sc.Stop && len(sc.Pre) == 0 {
			pres := engine.RunPORDFS(registryConfig(sc, c, -1))
			r.Eval(int64(pres.Executions))
			r.Traces += int64(pres.Executions)
			r.AddExtra("registry_unbounded_sleep_set_executions", float64(pres.Executions))
			if !pres.Exhaustive {
				r.Incomplete(fmt.Sprintf("registry scenario {%s}: unbounded sleep-set pass cut by the deadline after %d executions", sc, pres.Executions))
			} else {
				r.AddExtra("registry_scenarios_exhausted_without_bound", 1)
			}
			for _, v := range pres.Violations {
				kind := v.Message
				if i := strings.Index(kind, ":"); i > 0 {
					kind = kind[:i]
				}
				r.Violate("registry:unbounded:"+kind, fmt.Sprintf("registry scenario {%s}, sleep-set schedule %v: %s", sc, v.Choices, v.Message), registryReplay{SchedPhase: true, Scenario: sc, Choices: v.Choices, Bound: -1})
			}
		}
		if si%3 == 0 {
			r.Sample(map[string]any{"registry_scenario": sc.String(), "schedules": res.Executions, "preemption_bound": bound, "distinct_outcomes": len(res.Outcomes)})
		}
	}
}

func replayRegistry(c *engine.Ctx, d registryReplay) (string, bool) {
	if d.Bound < 0 {
		var ob any
		x := vrt.RunPOR(d.Choices, len(d.Choices), nil, vrt.Options{Trace: true, MaxSteps: 5000}, func() { ob = registryBody(d.Scenario) })
		msg := x.Failure
		if msg == "" {
			msg = registryJudge(d.Scenario, ob.(*regObs))
		}
		return fmt.Sprintf("registry scenario {%s} sleep-set schedule %v: %s\n%s", d.Scenario, d.Choices, msg, strings.Join(x.Trace, " | ")), msg != ""
	}
	x, _, msg := engine.RunOnce(registryConfig(d.Scenario, c, d.Bound), d.Choices, true)
	if msg == "" {
		return fmt.Sprintf("registry scenario {%s} schedule %v: holds\n%s", d.Scenario, d.Choices, strings.Join(x.Trace, " | ")), false
	}
	return fmt.Sprintf("registry scenario {%s} schedule %v: %s\n%s", d.Scenario, d.Choices, msg, strings.Join(x.Trace, " | ")), true
}
