// Package c17: the split listener gives authenticated sub-listeners only
// authenticated connections (E4: every set of registered sub-listeners x
// native setting x client kind, through real handshakes; the sub-listener that
// receives a connection answers with its name, so the client learns
// deterministically where it was routed, or sees the close).
package c17

import (
	"crypto/tls"
	"encoding/json"
	"errors"
	"fmt"
	"google.golang.org/protobuf/proto"
	"net"
	"sort"
	"strings"
	"sync"
	"sync/atomic"
	"time"

	"github.com/hashicorp/nodeenrollment"
	nenet "github.com/hashicorp/nodeenrollment/net"
	"github.com/hashicorp/nodeenrollment/protocol"
	"github.com/hashicorp/nodeenrollment/types"
	vclock "github.com/hashicorp/nodeenrollment/zz_verif/vclock"
	"verif/engine"
	"verif/harness"
)

var subNames = []string{"a", "b", nenet.AuthenticatedNonSpecificNextProto, nenet.UnauthenticatedNextProto}

type kase struct {
	Subs   []string `json:"subs"`
	Native bool     `json:"native"`
	Client string   `json:"client"` // auth:<extras> | base:<protos> | fetch
	Seed   int64    `json:"seed"`
	// Close is how the base listener reports its closure: "" = net.ErrClosed
	// (a TCP listener), "own-error" = an error value of its own, as session
	// and in-memory listeners do
	Close string `json:"close,omitempty"`
	// Late: the sub-listeners are registered while Start is already running
	// (after it has handled a first, rejected, connection)
	Late bool `json:"late,omitempty"`
	// Then: further clients that connect, one after the other, to the same
	// running split listener after Client has been dealt with (routing must
	// not carry anything over from one connection to the next)
	Then []string `json:"then,omitempty"`
}

// ownErrListener reports closure with its own error value. Asked again and
// again it eventually answers net.ErrClosed so that a caller that retries
// forever still terminates; the retries are counted.
type ownErrListener struct {
	net.Listener
	closed    atomic.Bool
	postClose atomic.Int64
}

var errSessionShutdown = errors.New("session shutdown")

// countingListener counts how often the split listener asked for a connection.
type countingListener struct {
	net.Listener
	calls atomic.Int64
}

func (l *countingListener) Accept() (net.Conn, error) {
	l.calls.Add(1)
	return l.Listener.Accept()
}

func (l *ownErrListener) Accept() (net.Conn, error) {
	if !l.closed.Load() {
		c, err := l.Listener.Accept()
		if err == nil || !l.closed.Load() {
			return c, err
		}
	}
	if l.postClose.Add(1) > 10000 {
		return nil, net.ErrClosed
	}
	return nil, errSessionShutdown
}

func (l *ownErrListener) Close() error {
	l.closed.Store(true)
	return l.Listener.Close()
}

// followers: the client kinds used for the connections after the first one
var followers = []string{"auth:", "auth:a", "authstate:a", "base:", "base:a", "fetch"}

func isFollower(c string) bool {
	for _, f := range followers {
		if f == c {
			return true
		}
	}
	return false
}

var clients = []string{
	"auth:", "auth:a", "auth:b", "auth:a,b", "auth:x", "auth:PREF,a", "auth:PREF,x", "auth:" + nenet.AuthenticatedNonSpecificNextProto, "auth:" + nenet.UnauthenticatedNextProto,
	"base:", "base:a", "base:" + nenet.AuthenticatedNonSpecificNextProto, "base:" + nenet.UnauthenticatedNextProto, "base:" + nodeenrollment.CertificatePreferenceV1Prefix + "xyz",
	"fetch",
	// another registered node replays this node's (clear-text) authentication
	// request behind its own valid certificate
	"replay:", "replay:a",
	// an authenticated client whose request carries client state: it no longer
	// fits one ALPN entry, so the negotiated protocol is a full-size first chunk
	"authstate:", "authstate:a",
	// base-TLS clients whose protocol names are legal on the wire but unusual:
	// not valid UTF-8, and of the maximum length
	"base:h2,\xfa\xfa", "base:h2," + strings.Repeat("L", 255),
}

type world struct {
	seed    int64
	st      *harness.MemStore
	node    *harness.Enrolled
	node2   *harness.Enrolled
	pending *harness.MemStore
	baseTLS *tls.Config
}

func newWorld(seed int64) *world {
	vclock.Reset()
	w := &world{seed: seed, st: harness.NewMemStore()}
	harness.InitRoots(w.st)
	var err error
	w.node, err = harness.Enroll(w.st, harness.NewCertKey("K1", seed), harness.NewEncKey("E1", seed), harness.Bytes("n1", 32), nil, nil)
	if err != nil {
		panic(err)
	}
	w.node2, err = harness.Enroll(w.st, harness.NewCertKey("K2", seed), harness.NewEncKey("E2", seed), harness.Bytes("n2", 32), nil, nil)
	if err != nil {
		panic(err)
	}
	w.pending = harness.NewMemStore()
	if err := harness.NodeCreds(harness.NewCertKey("KP", seed), harness.NewEncKey("EP", seed), harness.Bytes("np", 32)).Store(harness.Ctx, w.pending); err != nil {
		panic(err)
	}
	k := harness.NewCertKey("app", seed)
	w.baseTLS = &tls.Config{Certificates: []tls.Certificate{{Certificate: [][]byte{harness.SelfSignedCert(k, "app")}, PrivateKey: k.Priv}},
		NextProtos: []string{"a", "b", "x", nenet.AuthenticatedNonSpecificNextProto, nenet.UnauthenticatedNextProto, "h2"}, MinVersion: tls.VersionTLS12}
	return w
}

type delivery struct {
	Sub    string
	Type   string // tls | protocol | other
	Proto  string
	Authed bool
}

func (w *world) one(k kase, r *engine.Report) (string, string) {
	tcp, err := net.Listen("tcp", "127.0.0.1:0")
	if err != nil {
		r.InfraError(err.Error())
		return "", ""
	}
	var base net.Listener = tcp
	var own *ownErrListener
	if k.Close == "own-error" {
		own = &ownErrListener{Listener: tcp}
		base = own
	}
	counter := &countingListener{Listener: base}
	base = counter
	il, err := protocol.NewInterceptingListener(&protocol.InterceptingListenerConfiguration{Context: harness.Ctx, Storage: w.st.Clone(), BaseListener: base, BaseTlsConfiguration: w.baseTLS})
	if err != nil {
		panic(err)
	}
	sl, err := nenet.NewSplitListener(il)
	if err != nil {
		panic(err)
	}
	startDone := make(chan error, 1)
	if k.Late {
		go func() { startDone <- sl.Start() }()
		// a first connection that is no TLS at all: once Start asks for the
		// next one it is inside its loop
		if raw, err := net.DialTimeout("tcp", tcp.Addr().String(), 10*time.Second); err == nil {
			raw.Write([]byte("not tls\n"))
			raw.Close()
		}
		for guard := time.Now().Add(30 * time.Second); counter.calls.Load() < 2; {
			if time.Now().After(guard) {
				r.InfraError("SplitListener.Start did not come back for a second connection")
				return "", ""
			}
			time.Sleep(time.Millisecond)
		}
	}
	var mu sync.Mutex
	var deliveries []delivery
	closedErrs := map[string]error{}
	var wg sync.WaitGroup
	for _, name := range k.Subs {
		ln, err := sl.GetListener(name, nodeenrollment.WithNativeConns(k.Native))
		if err != nil {
			panic(err)
		}
		wg.Add(1)
		go func(name string, ln net.Listener) {
			defer wg.Done()
			for {
				conn, err := ln.Accept()
				if err != nil {
					mu.Lock()
					closedErrs[name] = err
					mu.Unlock()
					return
				}
				d := delivery{Sub: name, Type: "other"}
				var tc *tls.Conn
				switch c := conn.(type) {
				case *tls.Conn:
					d.Type, tc = "tls", c
				case *protocol.Conn:
					d.Type, tc = "protocol", c.Conn
				}
				if tc != nil {
					d.Proto = tc.ConnectionState().NegotiatedProtocol
					d.Authed = strings.HasPrefix(d.Proto, nodeenrollment.AuthenticateNodeNextProtoV1Prefix) && tc.ConnectionState().HandshakeComplete
				}
				mu.Lock()
				deliveries = append(deliveries, d)
				mu.Unlock()
				// tell the client where it landed
				conn.SetDeadline(time.Now().Add(20 * time.Second))
				conn.Write([]byte("@" + name + "\n"))
				conn.Close()
			}
		}(name, ln)
	}
	if !k.Late {
		go func() { startDone <- sl.Start() }()
	}

	// ---- clients, one after the other
	readTag := func(c net.Conn) string {
		c.SetDeadline(time.Now().Add(30 * time.Second))
		buf := make([]byte, 64)
		n, _ := c.Read(buf)
		if n > 0 && buf[0] == '@' {
			return strings.TrimSpace(string(buf[:n]))
		}
		return "closed"
	}
	addr := base.Addr().String()
	doClient := func(cl string) (string, bool) {
		landed := "" // "@name", "closed", "handshake-failed", "not-authorized"
		switch {
		case strings.HasPrefix(cl, "auth:"), strings.HasPrefix(cl, "authstate:"):
			var extras []string
			if e := cl[strings.Index(cl, ":")+1:]; e != "" {
				extras = strings.Split(e, ",")
			}
			nonce := harness.Bytes("c17", 32)
			b := w.node.Creds.CertificateBundles[0]
			for i, e := range extras {
				if e == "PREF" { // a valid certificate-preference entry ahead of the other extras
					extras[i] = nodeenrollment.CertificatePreferenceV1Prefix + harness.CaKeyId(b.CaCertificateDer)
				}
			}
			c := &harness.AuthClient{Request: &types.GenerateServerCertificatesRequest{CertificatePublicKeyPkix: w.node.K.Pkix, Nonce: nonce, NonceSignature: w.node.K.Sign(nonce)},
				Chain: [][]byte{b.CertificateDer, b.CaCertificateDer}, Key: w.node.K.Priv, Preference: harness.CaKeyId(b.CaCertificateDer), ExtraProtos: extras}
			if strings.HasPrefix(cl, "authstate:") {
				c.Request.ClientState, _ = proto.Marshal(harness.Struct(map[string]any{"worker": "w_1234567890", "tags": []any{"a", "b", "c"}, "zone": strings.Repeat("z", 200)}))
				c.Request.ClientStateSignature = w.node.K.Sign(c.Request.ClientState)
			}
			conn, err := c.Connect(addr)
			if err != nil {
				landed = "handshake-failed"
			} else {
				landed = readTag(conn)
				conn.Close()
			}
		case strings.HasPrefix(cl, "replay:"):
			var extras []string
			if e := strings.TrimPrefix(cl, "replay:"); e != "" {
				extras = strings.Split(e, ",")
			}
			nonce := harness.Bytes("c17", 32)
			b2 := w.node2.Creds.CertificateBundles[0]
			c := &harness.AuthClient{Request: &types.GenerateServerCertificatesRequest{CertificatePublicKeyPkix: w.node.K.Pkix, Nonce: nonce, NonceSignature: w.node.K.Sign(nonce)},
				Chain: [][]byte{b2.CertificateDer, b2.CaCertificateDer}, Key: w.node2.K.Priv, Preference: harness.CaKeyId(b2.CaCertificateDer), ExtraProtos: extras}
			conn, err := c.Connect(addr)
			if err != nil {
				landed = "handshake-failed"
			} else {
				landed = readTag(conn)
				conn.Close()
			}
		case strings.HasPrefix(cl, "base:"):
			var protos []string
			if e := strings.TrimPrefix(cl, "base:"); e != "" {
				protos = strings.Split(e, ",")
			}
			raw, err := net.DialTimeout("tcp", addr, 10*time.Second)
			if err != nil {
				r.InfraError(err.Error())
				return "", false
			}
			tc := tls.Client(raw, &tls.Config{InsecureSkipVerify: true, NextProtos: protos, MinVersion: tls.VersionTLS12})
			tc.SetDeadline(time.Now().Add(30 * time.Second))
			if err := tc.Handshake(); err != nil {
				landed = "handshake-failed"
			} else {
				landed = readTag(tc)
			}
			raw.Close()
		case cl == "fetch":
			conn, err := protocol.Dial(harness.Ctx, w.pending.Clone(), addr)
			switch {
			case errors.Is(err, nodeenrollment.ErrNotAuthorized):
				landed = "not-authorized"
			case err != nil:
				landed = "handshake-failed"
			default:
				landed = readTag(conn)
				conn.Close()
			}
		}

		return landed, true
	}
	sequence := append([]string{k.Client}, k.Then...)
	var landedAll []string
	var deliveredAfter []int
	for _, cl := range sequence {
		l, ok := doClient(cl)
		if !ok {
			return "", ""
		}
		landedAll = append(landedAll, l)
		mu.Lock()
		deliveredAfter = append(deliveredAfter, len(deliveries))
		mu.Unlock()
	}

	// ---- shutdown: every sub-listener must report closed
	base.Close()
	select {
	case <-startDone:
	case <-time.After(30 * time.Second):
		r.InfraError("SplitListener.Start did not return after the base listener was closed")
		return "", ""
	}
	if own != nil {
		if n := own.postClose.Load(); n > 1 {
			return "start-retries-after-base-closed", fmt.Sprintf("%s: the base listener reported its closure with an error of its own and was asked to accept %d more times; the split listener kept running", describe(k), n-1)
		}
		r.Branch("closed-with-own-error")
	}
	doneCh := make(chan struct{})
	go func() { wg.Wait(); close(doneCh) }()
	select {
	case <-doneCh:
	case <-time.After(30 * time.Second):
		return "sub-listener-not-closed", fmt.Sprintf("%s: a sub-listener's Accept did not return after the base listener was closed", describe(k))
	}
	for name, e := range closedErrs {
		if !errors.Is(e, net.ErrClosed) {
			return "sub-listener-wrong-close-error", fmt.Sprintf("%s: sub-listener %q reported %v instead of net.ErrClosed", describe(k), name, e)
		}
	}

	// ---- oracle
	has := map[string]bool{}
	for _, s := range k.Subs {
		has[s] = true
	}
	for _, d := range deliveries {
		if d.Sub != nenet.UnauthenticatedNextProto && !d.Authed {
			return "unauthenticated-on-authenticated-listener:" + clientClass(k.Client), fmt.Sprintf("%s: sub-listener %q received a connection that negotiated %q (not node-authenticated)", describe(k), d.Sub, d.Proto)
		}
		wantType := "tls"
		if k.Native {
			wantType = "protocol"
		}
		if d.Type != wantType {
			return "connection-type", fmt.Sprintf("%s: sub-listener %q handed out a %s connection, want %s", describe(k), d.Sub, d.Type, wantType)
		}
	}
	prev := 0
	for i, n := range deliveredAfter {
		if n-prev > 1 {
			return "delivered-twice", fmt.Sprintf("%s: client connection #%d (%q) was delivered %d times: %v", describe(k), i+1, sequence[i], n-prev, deliveries)
		}
		prev = n
	}
	if len(deliveries) > len(sequence) {
		return "delivered-twice", fmt.Sprintf("%s: %d client connections were delivered %d times: %v", describe(k), len(sequence), len(deliveries), deliveries)
	}
	for i, cl := range sequence {
		landed := landedAll[i]
		// allowed destinations for this client
		allowed := map[string]bool{}
		switch {
		case strings.HasPrefix(cl, "auth:"), strings.HasPrefix(cl, "authstate:"):
			extras := strings.Split(cl[strings.Index(cl, ":")+1:], ",")
			specific := false
			for _, e := range extras {
				if e == "PREF" {
					continue
				}
				if e != "" && has[e] {
					allowed["@"+e] = true
					specific = true
				}
			}
			if !specific {
				if has[nenet.AuthenticatedNonSpecificNextProto] {
					allowed["@"+nenet.AuthenticatedNonSpecificNextProto] = true
				} else {
					allowed["closed"] = true
				}
			}
		case strings.HasPrefix(cl, "base:"):
			allowed["handshake-failed"] = true // no common application protocol is the base configuration's business
			if has[nenet.UnauthenticatedNextProto] {
				allowed["@"+nenet.UnauthenticatedNextProto] = true
			} else {
				allowed["closed"] = true
			}
		case cl == "fetch":
			allowed["not-authorized"] = true
		case strings.HasPrefix(cl, "replay:"):
			// the certificate does not belong to the key the request was verified for
			allowed["handshake-failed"] = true
			allowed["closed"] = true
		}
		if !allowed[landed] {
			var a []string
			for x := range allowed {
				a = append(a, x)
			}
			sort.Strings(a)
			sig := "misrouted:" + clientClass(cl) + ":" + landed
			if i > 0 {
				sig = "misrouted-after-" + clientClass(sequence[i-1]) + ":" + clientClass(cl) + ":" + landed
			}
			return sig, fmt.Sprintf("%s: connection #%d (%q) ended up %q, the property allows %v (all: %v, deliveries %v)", describe(k), i+1, cl, landed, a, landedAll, deliveries)
		}
		r.Branch("routed:" + strings.SplitN(landed, ":", 2)[0])
		if i > 0 {
			r.Branch("second-connection-routed")
			r.Outcome(clientClass(sequence[i-1]) + "->" + landedAll[i-1] + " then " + clientClass(cl) + "->" + landed)
		} else {
			r.Outcome(clientClass(cl) + "->" + landed)
		}
	}
	return "", ""
}

func clientClass(c string) string {
	if i := strings.Index(c, ":"); i > 0 {
		return c[:i]
	}
	return c
}

func describe(k kase) string {
	return fmt.Sprintf("sub-listeners %v native=%v client %q then %q close=%q registered-late=%v", k.Subs, k.Native, k.Client, k.Then, k.Close, k.Late)
}

func run(c *engine.Ctx, r *engine.Report) {
	r.Need("routed:@a", "routed:@"+nenet.AuthenticatedNonSpecificNextProto, "routed:@"+nenet.UnauthenticatedNextProto, "routed:closed", "routed:not-authorized", "closed-with-own-error")
	w := newWorld(c.Seed)
	i := 0
	for mask := 0; mask < 16; mask++ {
		var subs []string
		for b, n := range subNames {
			if mask&(1<<b) != 0 {
				subs = append(subs, n)
			}
		}
		for _, native := range []bool{false, true} {
			for _, cl := range clients {
				for ci, cm := range []string{"", "own-error", "late"} {
					i++
					if !c.Mine(i) {
						continue
					}
					k := kase{Subs: subs, Native: native, Client: cl, Seed: c.Seed, Close: cm}
					if ci == 2 {
						k.Close, k.Late = "", true
					}
					r.Eval(1)
					if sig, msg := w.one(k, r); sig != "" {
						r.Violate(sig, msg, k)
						continue
					}
					r.Nontrivial(1)
					if i%41 == 2 {
						r.Sample(k)
					}
				}
			}
		}
	}
	// several connections, one after the other, through one running split
	// listener: every ordered pair of followers (quick) / every ordered pair of
	// all client kinds and every triple of followers (thorough), for every set
	// of sub-listeners. Routing keeps nothing from one connection to the next.
	r.Need("second-connection-routed")
	firsts, depth := followers, 2
	if c.Thorough() {
		firsts, depth = clients, 3
	}
	for mask := 0; mask < 16; mask++ {
		var subs []string
		for b, n := range subNames {
			if mask&(1<<b) != 0 {
				subs = append(subs, n)
			}
		}
		for _, native := range []bool{false, true} {
			for _, first := range firsts {
				var rec func(then []string)
				rec = func(then []string) {
					if len(then) > 0 {
						i++
						if c.Mine(i) {
							k := kase{Subs: subs, Native: native, Client: first, Then: append([]string{}, then...), Seed: c.Seed}
							r.Eval(1)
							if sig, msg := w.one(k, r); sig != "" {
								r.Violate(sig, msg, k)
							} else {
								r.Nontrivial(1)
								if i%97 == 2 {
									r.Sample(k)
								}
							}
						}
					}
					if len(then)+1 >= depth || (len(then) >= 1 && (native || !isFollower(first) || !isFollower(then[0]))) {
						return // triples: followers only, tls.Conn deliveries only
					}
					next := followers
					if c.Thorough() && len(then) == 0 {
						next = clients
					}
					for _, f := range next {
						rec(append(then, f))
					}
				}
				rec(nil)
			}
		}
	}
}

// raceRun: the registry free-running under the race detector (sampling
// companion of the scheduler phase): goroutines race to GetListener the same
// fresh name while others look names up, then the split listener stops.
func raceRun(c *engine.Ctx, r *engine.Report) {
	rounds := 300
	if c.Thorough() {
		rounds = 3000
	}
	for i := 0; i < rounds; i++ {
		base, err := net.Listen("tcp", "127.0.0.1:0")
		if err != nil {
			r.InfraError(err.Error())
			return
		}
		il, err := protocol.NewInterceptingListener(&protocol.InterceptingListenerConfiguration{Context: harness.Ctx, Storage: harness.NewMemStore(), BaseListener: base})
		if err != nil {
			panic(err)
		}
		sl, err := nenet.NewSplitListener(il)
		if err != nil {
			panic(err)
		}
		const callers = 4
		got := make([]net.Listener, callers)
		var wg sync.WaitGroup
		startDone := make(chan struct{})
		go func() { sl.Start(); close(startDone) }()
		for g := 0; g < callers; g++ {
			wg.Add(1)
			go func(g int) {
				defer wg.Done()
				name := "svc"
				if g == callers-1 {
					name = "other"
				}
				ln, err := sl.GetListener(name, nodeenrollment.WithNativeConns(g%2 == 0))
				if err == nil {
					got[g] = ln
				}
			}(g)
		}
		wg.Wait()
		r.Eval(1)
		for g := 1; g < callers-1; g++ {
			if got[g] != got[0] {
				r.Violate("race-run:two-objects", fmt.Sprintf("free-running round %d: two concurrent callers of GetListener(\"svc\") hold different sub-listeners", i), map[string]any{"free_running": true})
				base.Close()
				<-startDone
				return
			}
		}
		base.Close()
		<-startDone
		for g := 0; g < callers; g++ {
			if got[g] == nil {
				continue
			}
			if _, err := got[g].Accept(); !errors.Is(err, net.ErrClosed) {
				r.Violate("race-run:not-closed", fmt.Sprintf("free-running round %d: a sub-listener answered %v after the base listener was closed", i, err), map[string]any{"free_running": true})
				return
			}
			got[g].Close()
		}
	}
	r.Outcome("free-running-rounds")
}

type registryScenario struct {
	Pre     []string `json:"pre"`     // names registered before the race
	Getters []string `json:"getters"` // concurrent GetListener calls (name or name/native)
	Stop    bool     `json:"stop"`    // a thread runs Start over an already closed base listener
}

func (s registryScenario) String() string {
	return fmt.Sprintf("pre=%v getters=%v stop=%v", s.Pre, s.Getters, s.Stop)
}

type registryReplay struct {
	SchedPhase bool             `json:"sched_phase"`
	Scenario   registryScenario `json:"scenario"`
	Choices    []int            `json:"choices"`
	Bound      int              `json:"bound"`
}

func replay(c *engine.Ctx, raw json.RawMessage) (string, bool) {
	var rr registryReplay
	if json.Unmarshal(raw, &rr) == nil && rr.SchedPhase {
		return replayRegistry(c, rr)
	}
	var k kase
	if err := json.Unmarshal(raw, &k); err != nil {
		return err.Error(), false
	}
	sig, msg := newWorld(k.Seed).one(k, engine.NewReport())
	if sig == "" {
		return fmt.Sprintf("case %+v: holds", k), false
	}
	return sig + ": " + msg, true
}

func init() {
	engine.Register(&engine.CheckDef{
		ID:    "C17",
		Level: "exploration",
		Rule: "every subset of sub-listeners {a, b, __AUTH__, __UNAUTH__} (16) x native connections {off,on} x 21 client kinds (authenticated with extras [], [a], [b], [a,b], [x], [certificate-preference entry, a], [certificate-preference entry, x], [__AUTH__], [__UNAUTH__]; base-TLS clients offering [], [a], [__AUTH__], [__UNAUTH__], a certificate-preference entry; a fetch-only client; another registered node replaying this node's request behind its own certificate, with extras [] and [a]; authenticated clients whose request carries client state and spans several ALPN entries; base-TLS clients offering a non-UTF-8 name and a 255-byte name) x {base listener closure reported as net.ErrClosed, as an error value of its own, sub-listeners registered while Start is already running} = 2016 real topologies over the real InterceptingListener + SplitListener; the receiving sub-listener answers with its name so routing is observed deterministically; afterwards the base listener is closed, Start must stop without asking it again and every sub-listener must report net.ErrClosed; scheduler phase (sub-listener registry, get-or-create): 2-3 concurrent GetListener calls for the same / different names, with and without pre-registered names, and with Start stopping over a closed base listener at the same time, every interleaving within 2 preemptions (1 with the stop thread; +1 in the thorough tier, whose four- and three-plus-stop-caller scenarios use 2) plus all interleavings up to sleep-set equivalence of the two-caller scenarios without pre-registered names and stop - all callers of one name must hold the one registered object and every handle must report closed after the stop; " +
			"distinct_nontrivial counts topologies (distinct by construction) that were routed and judged",
		Assumptions: []string{"when several registered names match the client's extras any of them may receive the connection (map iteration order)", "GetListener after close is documented as unsupported and not exercised"},
		Shards:      func(c *engine.Ctx) int { return 8 },
		Run:         run,
		SchedRun:    schedRun,
		RaceRun:     raceRun,
		SchedShards: 4,
		Replay:      replay,
	})
}
