//go:build !vsched

package c17

import "verif/engine"

// schedRun needs the scheduler build (see registry_vsched.go).
func schedRun(c *engine.Ctx, r *engine.Report) {
	r.InfraError("the registry phase of C17 must run in the scheduler build")
}

func replayRegistry(c *engine.Ctx, d registryReplay) (string, bool) {
	return "the registry phase replays in the scheduler build (vcheck selects it)", false
}
