// Package c03: enrollment requests are processed only if authentically signed
// and fresh (E4: every single-bit flip and truncation of bundle and
// signature, every window placement x skew pair including exact ties, every
// missing-field variant, through AuthorizeNode and FetchNodeCredentials in
// each enrollment mode, with a recording store).
package c03

import (
	"crypto/ecdsa"
	"crypto/elliptic"
	"crypto/x509"
	"encoding/json"
	"fmt"
	"strings"
	"time"
	_ "time/tzdata" // the zone database, independent of what the host has installed

	wrapping "github.com/hashicorp/go-kms-wrapping/v2"
	"github.com/hashicorp/nodeenrollment"
	"github.com/hashicorp/nodeenrollment/registration"
	"github.com/hashicorp/nodeenrollment/rotation"
	"github.com/hashicorp/nodeenrollment/types"
	vclock "github.com/hashicorp/nodeenrollment/zz_verif/vclock"
	"google.golang.org/protobuf/encoding/protowire"
	"google.golang.org/protobuf/proto"
	"google.golang.org/protobuf/types/known/timestamppb"
	"verif/engine"
	"verif/harness"
)

const L = nodeenrollment.DefaultFetchCredentialsLifetime

var offsets = []time.Duration{-2 * L, -L - 1, -L, -1, 0, 1, L, L + 1, 2 * L}
var skews = []time.Duration{-time.Hour, -5 * time.Minute, -1, 0, 1, 5 * time.Minute, time.Hour}
var modes = []string{"authorize", "fetch-authorized", "fetch-token", "fetch-wrapper", "rotate-embedded"}

type kase struct {
	Kind  string        `json:"kind"` // window | mutate | field | honest
	Mode  string        `json:"mode"`
	NB    time.Duration `json:"nb_offset,omitempty"`
	NA    time.Duration `json:"na_offset,omitempty"`
	SkNB  time.Duration `json:"nb_skew,omitempty"`
	SkNA  time.Duration `json:"na_skew,omitempty"`
	Mut   string        `json:"mut,omitempty"`
	Clock string        `json:"clock,omitempty"`
	At    time.Duration `json:"at,omitempty"` // honest: instant of use relative to creation
	// Side: the fields of the request that lie outside the signed bundle (the
	// re-wrapped registration info and its key id) are filled with junk
	Side bool `json:"unsigned_side_fields,omitempty"`
	// Zone: honest requests are created by a node whose local time zone changes
	// its UTC offset within the request's lifetime
	Zone string `json:"zone,omitempty"`
	Seed int64  `json:"seed"`
}

type world struct {
	seed int64
	k    *harness.CertKey
	k2   *harness.CertKey
	e    *harness.EncKey
	rw   wrapping.Wrapper
	base map[string]*harness.MemStore // per mode
	tok  *harness.Token
	n1   []byte
	n0   *harness.Enrolled // the enrolled node whose keys carry embedded requests (mode rotate-embedded)
}

func newWorld(seed int64) *world {
	vclock.Freeze(harness.T0)
	w := &world{seed: seed, k: harness.NewCertKey("K1", seed), k2: harness.NewCertKey("K2", seed), e: harness.NewEncKey("E1", seed), rw: harness.Wrapper("registration", seed),
		base: map[string]*harness.MemStore{}, n1: harness.Bytes("n1", 32)}
	for _, m := range modes {
		st := harness.NewMemStore()
		harness.InitRoots(st)
		switch m {
		case "fetch-authorized":
			if _, err := registration.AuthorizeNode(harness.Ctx, st, harness.SignedRequest(harness.Info(w.k, w.e, w.n1), w.k)); err != nil {
				panic(err)
			}
		case "rotate-embedded":
			var err error
			if w.n0, err = harness.Enroll(st, harness.NewCertKey("K0", seed), harness.NewEncKey("E0", seed), harness.Bytes("n0", 32), nil, nil); err != nil {
				panic(err)
			}
		case "fetch-token":
			t, err := harness.CreateToken(st, "T1", seed)
			if err != nil {
				panic(err)
			}
			w.tok = t
		}
		w.base[m] = st
	}
	return w
}

func (w *world) info(mode string) *types.FetchNodeCredentialsInfo {
	nonce := w.n1
	if mode == "fetch-token" {
		nonce = w.tok.Bytes
	}
	info := harness.Info(w.k, w.e, nonce)
	if mode == "fetch-wrapper" {
		info.WrappedRegistrationInfo = harness.SealRegistrationInfo(w.rw, w.k.Pkix, nonce)
	}
	return info
}

// call runs the request through the mode's API on a fresh clone and reports
// (proceeded past validation, succeeded, storage calls, writes, error).
func (w *world) call(mode string, req *types.FetchNodeCredentialsRequest, opt ...nodeenrollment.Option) (proceeded, ok bool, calls, writes int, err error, panicked string) {
	st := w.base[mode].Clone()
	st.Record = true
	opt = append(opt, nodeenrollment.WithRegistrationWrapper(w.rw), nodeenrollment.WithMaximumServerLedActivationTokenLifetime(1000*time.Hour))
	func() {
		defer func() {
			if p := recover(); p != nil {
				panicked = fmt.Sprint(p)
			}
		}()
		if mode == "rotate-embedded" {
			// the request travels inside a rotation envelope made with an enrolled node's keys
			ct, eerr := nodeenrollment.EncryptMessage(harness.Ctx, req, w.n0.Creds)
			if eerr != nil {
				panic(eerr)
			}
			var resp *types.RotateNodeCredentialsResponse
			resp, err = rotation.RotateNodeCredentials(harness.Ctx, st, &types.RotateNodeCredentialsRequest{CertificatePublicKeyPkix: w.n0.K.Pkix, EncryptedFetchNodeCredentialsRequest: ct}, opt...)
			ok = err == nil && resp != nil
		} else if mode == "authorize" {
			var n *types.NodeInformation
			n, err = registration.AuthorizeNode(harness.Ctx, st, req, opt...)
			ok = err == nil && n != nil
		} else {
			var resp *types.FetchNodeCredentialsResponse
			resp, err = registration.FetchNodeCredentials(harness.Ctx, st, req, opt...)
			ok = err == nil && harness.HasCreds(resp)
		}
	}()
	calls = st.Calls
	writes = len(st.Writes())
	proceeded = calls > 0 || err == nil
	if mode == "rotate-embedded" {
		// the envelope is opened with a stored record before the embedded
		// request can be validated: processing shows as a write or a success
		proceeded = writes > 0 || err == nil
	}
	return
}

// records splits a serialized message into its top-level field records.
func records(b []byte) [][]byte {
	var out [][]byte
	for len(b) > 0 {
		_, typ, n := protowire.ConsumeTag(b)
		if n < 0 {
			return nil
		}
		m := protowire.ConsumeFieldValue(0, typ, b[n:])
		if m < 0 {
			return nil
		}
		out = append(out, b[:n+m])
		b = b[n+m:]
	}
	return out
}

// reencode returns bytes that differ from b but decode to the same message:
// two neighbouring field records swapped, all records reversed, or the length
// prefix of one length-delimited record written as a non-minimal varint.
func reencode(b []byte, kind string, i int) []byte {
	recs := records(b)
	var out []byte
	switch kind {
	case "reencode-swap":
		if i+1 >= len(recs) {
			return nil
		}
		// swapping two records of the same field number would change which one wins
		n1, _, _ := protowire.ConsumeTag(recs[i])
		n2, _, _ := protowire.ConsumeTag(recs[i+1])
		if n1 == n2 {
			return nil
		}
		recs[i], recs[i+1] = recs[i+1], recs[i]
	case "reencode-reverse":
		if i != 0 || len(recs) < 2 {
			return nil
		}
		for l, r := 0, len(recs)-1; l < r; l, r = l+1, r-1 {
			recs[l], recs[r] = recs[r], recs[l]
		}
	case "reencode-overlong-length":
		if i >= len(recs) {
			return nil
		}
		num, typ, n := protowire.ConsumeTag(recs[i])
		if typ != protowire.BytesType {
			return nil
		}
		v, m := protowire.ConsumeVarint(recs[i][n:])
		body := recs[i][n+m:]
		var rec []byte
		rec = protowire.AppendTag(rec, num, typ)
		// the same length in one byte more than needed
		for x := v; ; x >>= 7 {
			if x < 0x80 {
				rec = append(rec, byte(x)|0x80, 0x00)
				break
			}
			rec = append(rec, byte(x)|0x80)
		}
		recs[i] = append(rec, body...)
	default:
		return nil
	}
	for _, r := range recs {
		out = append(out, r...)
	}
	return out
}

// zoneInstants: an instant 14 hours before the zone's UTC offset changes.
var zoneInstants = map[string]func(*time.Location) time.Time{
	"America/New_York": func(l *time.Location) time.Time { return time.Date(2030, 3, 9, 12, 0, 0, 0, l) },   // clocks go forward on 2030-03-10
	"Europe/Berlin":    func(l *time.Location) time.Time { return time.Date(2030, 10, 26, 13, 0, 0, 0, l) }, // clocks go back on 2030-10-27
}

func flip(b []byte, bit int) []byte {
	out := append([]byte{}, b...)
	out[bit/8] ^= 1 << uint(bit%8)
	return out
}

func (w *world) one(k kase, r *engine.Report) (string, string) {
	switch k.Kind {
	case "window":
		now := harness.T0
		if k.Clock == "ticking" {
			vclock.Tick(now)
		} else {
			vclock.Freeze(now)
		}
		info := w.info(k.Mode)
		info.NotBefore, info.NotAfter = timestamppb.New(now.Add(k.NB)), timestamppb.New(now.Add(k.NA))
		req := harness.SignedRequest(info, w.k)
		if k.Side {
			req.RewrappedWrappingRegistrationFlowInfo, req.RewrappingKeyId = []byte{0x0a, 0x01, 0x00}, "some-key-id"
		}
		proceeded, _, calls, writes, err, pm := w.call(k.Mode, req, nodeenrollment.WithNotBeforeClockSkew(k.SkNB), nodeenrollment.WithNotAfterClockSkew(k.SkNA))
		vclock.Freeze(harness.T0)
		if pm != "" {
			return "panic:window", "panic: " + pm
		}
		lo, hi := k.NB+k.SkNB, k.NA+k.SkNA // window relative to now, widened by the skews
		slack := time.Duration(0)
		if k.Clock == "ticking" {
			slack = 8 // a few clock reads
		}
		desc := fmt.Sprintf("[%s, %s clock] window now%+v..now%+v, skews nb=%v na=%v (widened: now%+v..now%+v)", k.Mode, k.Clock, k.NB, k.NA, k.SkNB, k.SkNA, lo, hi)
		if k.Side {
			desc += " [unsigned side fields of the request filled with junk]"
		}
		inside := lo < -slack && hi > slack
		outside := lo > slack || hi < -slack
		switch {
		case outside && proceeded:
			side := "before-window"
			if hi < 0 {
				side = "after-window"
			}
			return "stale-processed:" + side, desc + fmt.Sprintf(": now lies outside the widened window but processing went on (%d storage calls, %d writes, err=%v)", calls, writes, err)
		case outside && writes > 0:
			return "stale-wrote", desc + ": a rejected request caused storage writes"
		case inside && !proceeded:
			return "fresh-rejected", desc + fmt.Sprintf(": now lies inside the widened window but the request was rejected before processing: %v", err)
		}
		switch {
		case outside:
			r.Branch("window-rejected")
		case inside:
			r.Branch("window-accepted")
		default:
			r.Branch("window-tie")
			r.Outcome("trivial")
		}
	case "mutate":
		vclock.Freeze(harness.T0)
		req := harness.SignedRequest(w.info(k.Mode), w.k)
		other := harness.SignedRequest(harness.Info(w.k2, w.e, harness.Bytes("n2", 32)), w.k2)
		var a int
		m := proto.Clone(req).(*types.FetchNodeCredentialsRequest)
		switch {
		case strings.HasPrefix(k.Mut, "flip-bundle:"):
			fmt.Sscanf(k.Mut, "flip-bundle:%d", &a)
			if a >= len(m.Bundle)*8 {
				return "", ""
			}
			m.Bundle = flip(m.Bundle, a)
		case strings.HasPrefix(k.Mut, "flip-sig:"):
			fmt.Sscanf(k.Mut, "flip-sig:%d", &a)
			m.BundleSignature = flip(m.BundleSignature, a)
		case strings.HasPrefix(k.Mut, "trunc-bundle:"):
			fmt.Sscanf(k.Mut, "trunc-bundle:%d", &a)
			if a >= len(m.Bundle) {
				return "", ""
			}
			m.Bundle = m.Bundle[:a]
		case strings.HasPrefix(k.Mut, "trunc-sig:"):
			fmt.Sscanf(k.Mut, "trunc-sig:%d", &a)
			m.BundleSignature = m.BundleSignature[:a]
		case strings.HasPrefix(k.Mut, "reencode-"):
			// a different byte string that decodes to the very same message
			var kind string
			fmt.Sscanf(strings.Replace(k.Mut, ":", " ", 1), "%s %d", &kind, &a)
			alt := reencode(m.Bundle, kind, a)
			if alt == nil {
				return "", ""
			}
			chk := new(types.FetchNodeCredentialsInfo)
			orig := new(types.FetchNodeCredentialsInfo)
			if proto.Unmarshal(alt, chk) != nil || proto.Unmarshal(m.Bundle, orig) != nil || !proto.Equal(chk, orig) || string(alt) == string(m.Bundle) {
				return "harness:reencode", fmt.Sprintf("[%s] %s is not an equivalent re-encoding (harness error)", k.Mode, k.Mut)
			}
			m.Bundle = alt
		case k.Mut == "swap-sig":
			m.BundleSignature = other.BundleSignature
		case k.Mut == "swap-bundle":
			m.Bundle = other.Bundle
		case k.Mut == "sig-by-other-key":
			m.BundleSignature = w.k2.Sign(m.Bundle)
		case k.Mut == "sig-by-key-named-as-previous":
			// the bundle names another key as the one this key replaces - and is signed by that one
			info := w.info(k.Mode)
			info.PreviousCertificatePublicKeyPkix = w.k2.Pkix
			m.Bundle, _ = proto.Marshal(info)
			m.BundleSignature = w.k2.Sign(m.Bundle)
		}
		// the genuine request is processed first (an ordinary poll): state kept
		// across calls must not let the altered one ride on it
		w.call(k.Mode, req)
		proceeded, _, calls, writes, err, pm := w.call(k.Mode, m)
		if pm != "" {
			return "panic:mutate", fmt.Sprintf("[%s] %s: panic: %s", k.Mode, k.Mut, pm)
		}
		if proceeded || writes > 0 {
			return "mutated-processed:" + strings.SplitN(k.Mut, ":", 2)[0], fmt.Sprintf("[%s] request with %s was processed past validation (%d storage calls, %d writes, err=%v)", k.Mode, k.Mut, calls, writes, err)
		}
		r.Branch("mutation-rejected")
	case "field":
		vclock.Freeze(harness.T0)
		info := w.info(k.Mode)
		signer := w.k
		switch k.Mut {
		case "no-cert-key":
			info.CertificatePublicKeyPkix = nil
		case "cert-key-type-unspecified":
			info.CertificatePublicKeyType = types.KEYTYPE_UNSPECIFIED
		case "cert-key-type-x25519":
			info.CertificatePublicKeyType = types.KEYTYPE_X25519
		case "no-nonce":
			info.Nonce = nil
		case "no-enc-key":
			info.EncryptionPublicKeyBytes = nil
		case "enc-key-type-ed25519":
			info.EncryptionPublicKeyType = types.KEYTYPE_ED25519
		case "no-not-after":
			info.NotAfter = nil
		case "cert-key-garbage":
			info.CertificatePublicKeyPkix = []byte("not a pkix key")
		case "cert-key-ecdsa":
			ek, _ := ecdsa.GenerateKey(elliptic.P256(), harness.DetRand("ecdsa"))
			info.CertificatePublicKeyPkix, _ = x509.MarshalPKIXPublicKey(&ek.PublicKey)
		}
		req := harness.SignedRequest(info, signer)
		if k.Mut == "no-bundle" {
			req.Bundle = nil
		}
		if k.Mut == "no-signature" {
			req.BundleSignature = nil
		}
		proceeded, _, calls, writes, err, pm := w.call(k.Mode, req)
		if pm != "" {
			return "panic:field", fmt.Sprintf("[%s] %s: panic: %s", k.Mode, k.Mut, pm)
		}
		if proceeded || writes > 0 {
			return "malformed-processed:" + k.Mut, fmt.Sprintf("[%s] well-signed request with %s was processed past validation (%d storage calls, err=%v)", k.Mode, k.Mut, calls, err)
		}
		r.Branch("field-rejected")
	case "honest":
		// a request created by the library itself, used `At` after creation
		vclock.Freeze(harness.T0)
		if k.Zone != "" {
			// the node's clock reads local time in a zone that changes its UTC
			// offset 14 hours from now; the request is still good for exactly L
			loc, lerr := time.LoadLocation(k.Zone)
			if lerr != nil {
				r.InfraError("time zone database: " + lerr.Error())
				return "", ""
			}
			created := zoneInstants[k.Zone](loc)
			vclock.Freeze(created)
			creds := harness.NodeCreds(w.k, w.e, w.n1)
			req, err := creds.CreateFetchNodeCredentialsRequest(harness.Ctx)
			vclock.Freeze(harness.T0)
			if err != nil {
				return "honest-create-fails", err.Error()
			}
			info := new(types.FetchNodeCredentialsInfo)
			proto.Unmarshal(req.Bundle, info)
			if !info.NotBefore.AsTime().Equal(created) || info.NotAfter.AsTime().Sub(info.NotBefore.AsTime()) != L {
				return "honest-window:offset-change-ahead", fmt.Sprintf("a request created at %v by a node in %s is valid for %v, want %v", created, k.Zone, info.NotAfter.AsTime().Sub(info.NotBefore.AsTime()), L)
			}
			r.Branch("honest-across-offset-change")
			return "", ""
		}
		creds := harness.NodeCreds(w.k, w.e, w.n1)
		var o []nodeenrollment.Option
		switch k.Mode {
		case "fetch-token":
			o = append(o, nodeenrollment.WithActivationToken(w.tok.String))
		case "fetch-wrapper":
			o = append(o, nodeenrollment.WithRegistrationWrapper(w.rw))
		}
		req, err := creds.CreateFetchNodeCredentialsRequest(harness.Ctx, o...)
		if err != nil {
			return "honest-create-fails", err.Error()
		}
		info := new(types.FetchNodeCredentialsInfo)
		proto.Unmarshal(req.Bundle, info)
		if !info.NotBefore.AsTime().Equal(harness.T0) || info.NotAfter.AsTime().Sub(info.NotBefore.AsTime()) != L {
			return "honest-window", fmt.Sprintf("a node-created request is valid %v..%v, want creation..creation+%v", info.NotBefore.AsTime(), info.NotAfter.AsTime(), L)
		}
		vclock.Freeze(harness.T0.Add(k.At))
		proceeded, ok, _, _, cerr, pm := w.call(k.Mode, req, nodeenrollment.WithNotBeforeClockSkew(0), nodeenrollment.WithNotAfterClockSkew(0))
		vclock.Freeze(harness.T0)
		if pm != "" {
			return "panic:honest", pm
		}
		switch {
		case k.At >= 0 && k.At < L && !ok:
			return "honest-refused", fmt.Sprintf("[%s] a node-created request used %v after creation (lifetime %v, no skew) was not honoured: %v", k.Mode, k.At, L, cerr)
		case (k.At < 0 || k.At > L) && proceeded:
			return "honest-stale-processed", fmt.Sprintf("[%s] a node-created request used %v after creation (lifetime %v, no skew) was processed", k.Mode, k.At, L)
		}
		r.Branch("honest")
	}
	return "", ""
}

func (w *world) cases(c *engine.Ctx, emit func(kase)) {
	for _, mode := range modes {
		for _, clk := range []string{"frozen", "ticking"} {
			for _, nb := range offsets {
				for _, na := range offsets {
					for _, snb := range skews {
						for _, sna := range skews {
							if !c.Thorough() && clk == "ticking" && (snb != 0 || sna != 0) {
								continue
							}
							emit(kase{Kind: "window", Mode: mode, NB: nb, NA: na, SkNB: snb, SkNA: sna, Clock: clk, Seed: c.Seed})
							if clk == "frozen" && snb == 0 && sna == 0 {
								emit(kase{Kind: "window", Mode: mode, NB: nb, NA: na, Clock: clk, Side: true, Seed: c.Seed})
							}
						}
					}
				}
			}
		}
		req := harness.SignedRequest(w.info(mode), w.k)
		for bit := 0; bit < len(req.Bundle)*8; bit++ {
			emit(kase{Kind: "mutate", Mode: mode, Mut: fmt.Sprintf("flip-bundle:%d", bit), Seed: c.Seed})
		}
		for bit := 0; bit < len(req.BundleSignature)*8; bit++ {
			emit(kase{Kind: "mutate", Mode: mode, Mut: fmt.Sprintf("flip-sig:%d", bit), Seed: c.Seed})
		}
		for n := 0; n < len(req.Bundle); n++ {
			emit(kase{Kind: "mutate", Mode: mode, Mut: fmt.Sprintf("trunc-bundle:%d", n), Seed: c.Seed})
		}
		for n := 0; n < len(req.BundleSignature); n++ {
			emit(kase{Kind: "mutate", Mode: mode, Mut: fmt.Sprintf("trunc-sig:%d", n), Seed: c.Seed})
		}
		for i := 0; i < 12; i++ {
			emit(kase{Kind: "mutate", Mode: mode, Mut: fmt.Sprintf("reencode-swap:%d", i), Seed: c.Seed})
			emit(kase{Kind: "mutate", Mode: mode, Mut: fmt.Sprintf("reencode-overlong-length:%d", i), Seed: c.Seed})
		}
		emit(kase{Kind: "mutate", Mode: mode, Mut: "reencode-reverse:0", Seed: c.Seed})
		for _, m := range []string{"swap-sig", "swap-bundle", "sig-by-other-key", "sig-by-key-named-as-previous"} {
			emit(kase{Kind: "mutate", Mode: mode, Mut: m, Seed: c.Seed})
		}
		for _, m := range []string{"no-cert-key", "cert-key-type-unspecified", "cert-key-type-x25519", "no-nonce", "no-enc-key", "enc-key-type-ed25519", "no-not-after", "cert-key-garbage", "cert-key-ecdsa", "no-bundle", "no-signature"} {
			emit(kase{Kind: "field", Mode: mode, Mut: m, Seed: c.Seed})
		}
		if mode == "authorize" {
			for _, z := range []string{"America/New_York", "Europe/Berlin"} {
				emit(kase{Kind: "honest", Mode: mode, Zone: z, Seed: c.Seed})
			}
		}
		for _, at := range []time.Duration{-1, 0, 1, L / 2, L - 1, L + 1, 2 * L} {
			emit(kase{Kind: "honest", Mode: mode, At: at, Seed: c.Seed})
		}
	}
}

func run(c *engine.Ctx, r *engine.Report) {
	r.Need("window-rejected", "window-accepted", "window-tie", "mutation-rejected", "field-rejected", "honest")
	w := newWorld(c.Seed)
	i := 0
	w.cases(c, func(k kase) {
		i++
		if !c.Mine(i) {
			return
		}
		r.Eval(1)
		before := r.Outcomes["trivial"]
		if sig, msg := w.one(k, r); sig != "" {
			r.Violate(sig, msg, k)
			return
		}
		if r.Outcomes["trivial"] == before {
			r.Nontrivial(1)
		}
		if i%7919 == 5 {
			r.Sample(k)
		}
	})
	vclock.Reset()
}

func replay(c *engine.Ctx, raw json.RawMessage) (string, bool) {
	var k kase
	if err := json.Unmarshal(raw, &k); err != nil {
		return err.Error(), false
	}
	w := newWorld(k.Seed)
	defer vclock.Reset()
	sig, msg := w.one(k, engine.NewReport())
	if sig == "" {
		return fmt.Sprintf("case %+v: holds", k), false
	}
	return sig + ": " + msg, true
}

func init() {
	engine.Register(&engine.CheckDef{
		ID:    "C03",
		Level: "exploration",
		Rule: "through AuthorizeNode, FetchNodeCredentials in three enrollment modes (record, token, wrapper) and RotateNodeCredentials (the request embedded in an enrolled node's rotation envelope): window placements (NotBefore, NotAfter) relative to now from {-2L,-L-1ns,-L,-1ns,0,+1ns,+L,+L+1ns,+2L}^2 x skew pairs from {-1h,-5m,-1ns,0,1ns,5m,1h}^2 under a frozen and a ticking clock; every single-bit flip and every truncation of bundle and of signature, equivalent re-encodings of the bundle (neighbouring field records swapped, all reversed, non-minimal length varints), swapped signature/bundle, signature by another key (also one the bundle itself names as its previous key); 11 missing-field / wrong-key-type variants; node-created requests used at {-1ns,0,1ns,L/2,L-1ns,L+1ns,2L} after creation, and created by a node whose local zone changes its UTC offset within the next day (forward and back); window placements again with the request's unsigned side fields filled with junk; " +
			"distinct_nontrivial counts cases (distinct by construction) except exact ties between now and a widened window end, on which the property is silent",
		Assumptions: []string{"random multi-byte mutations are sampling and are not claimed; all single-bit flips and truncations are enumerated", "'processed past validation' is observed as any storage call or a success: validation itself is storage-free (embedded in a rotation: as a storage write or a success, the envelope being opened with a stored record first)", "exact ties are not judged"},
		Shards:      func(c *engine.Ctx) int { return 16 },
		Run:         run,
		Replay:      replay,
	})
}
