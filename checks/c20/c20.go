// Package c20: ALPN chunk encoding round-trips every payload that fits a
// ClientHello (E4: bounded-exhaustive input enumeration).
package c20

import (
	"encoding/json"
	"fmt"
	"math/rand"
	"strings"

	"github.com/hashicorp/nodeenrollment"
	nodetls "github.com/hashicorp/nodeenrollment/tls"
	"verif/engine"
)

// alpnBudget is the room the ALPN protocol list has inside a ClientHello: the
// list length is a uint16 and the whole handshake message must stay below
// 64 KiB; 512 bytes are reserved for the other ClientHello fields.
const alpnBudget = 65535 - 512

var prefixes = []string{nodeenrollment.FetchNodeCredsNextProtoV1Prefix, nodeenrollment.AuthenticateNodeNextProtoV1Prefix}

type kase struct {
	Kind    string `json:"kind"` // roundtrip | mixed | malformed
	Prefix  string `json:"prefix"`
	Len     int    `json:"len,omitempty"`
	Content string `json:"content,omitempty"` // pattern name
	Pos     int    `json:"pos,omitempty"`
	Entry   string `json:"entry,omitempty"`
	Seed    int64  `json:"seed,omitempty"`
}

const b64 = "ABCDEFGHIJKLMNOPQRSTUVWXYZabcdefghijklmnopqrstuvwxyz0123456789+/"

func payload(pattern string, n int, seed int64, prefix string) string {
	b := make([]byte, n)
	switch pattern {
	case "position":
		for i := range b {
			b[i] = b64[(i*7+i/64)%64]
		}
	case "random":
		r := rand.New(rand.NewSource(seed*1000003 + int64(n)))
		for i := range b {
			b[i] = b64[r.Intn(64)]
		}
	case "hyphens":
		for i := range b {
			b[i] = '-'
		}
	case "header-like":
		s := strings.Repeat("00-"+prefix+"01-", n/(len(prefix)+6)+1)
		copy(b, s)
	case "digits":
		for i := range b {
			b[i] = byte('0' + i%10)
		}
	case "utf8-2", "utf8-3", "utf8-4", "utf8-mixed":
		// valid multi-byte sequences, so that chunk boundaries fall inside them
		unit := map[string]string{"utf8-2": "\u00e9", "utf8-3": "\u20ac", "utf8-4": "\U0001F600", "utf8-mixed": "a\u00e9\u20ac\U0001F600-"}[pattern]
		copy(b, strings.Repeat(unit, n/len(unit)+1))
	case "all-bytes":
		// every byte value, including NUL and invalid UTF-8
		for i := range b {
			b[i] = byte(i*37 + i/256)
		}
	}
	return string(b)
}

func guard(f func()) (panicked string) {
	defer func() {
		if r := recover(); r != nil {
			panicked = fmt.Sprint(r)
		}
	}()
	f()
	return ""
}

func lenClass(chunks int) string {
	switch {
	case chunks <= 1:
		return "1-chunk"
	case chunks <= 100:
		return "2-100-chunks"
	default:
		return ">100-chunks"
	}
}

// one runs a single case; it returns (signature, message) of a violation.
func one(k kase, r *engine.Report) (string, string) {
	pn := "fetch"
	if k.Prefix == nodeenrollment.AuthenticateNodeNextProtoV1Prefix {
		pn = "auth"
	}
	switch k.Kind {
	case "roundtrip", "mixed":
		p := payload(k.Content, k.Len, k.Seed, k.Prefix)
		var chunks []string
		var err error
		if pm := guard(func() { chunks, err = nodetls.BreakIntoNextProtos(k.Prefix, p) }); pm != "" {
			return "break:panic", "BreakIntoNextProtos panicked: " + pm
		}
		if err != nil {
			return "break:error:" + lenClass(0), fmt.Sprintf("BreakIntoNextProtos failed for a %d-byte payload: %v", k.Len, err)
		}
		total := 0
		for _, c := range chunks {
			total += 1 + len(c)
			if !strings.HasPrefix(c, k.Prefix) {
				return "entry:no-prefix", fmt.Sprintf("entry %q does not start with the prefix", c)
			}
			if len(c) > 255 {
				return "entry:too-long", fmt.Sprintf("entry of %d bytes exceeds the 255-byte ALPN limit", len(c))
			}
		}
		if total > alpnBudget {
			r.Outcome("skipped:does-not-fit-clienthello")
			return "", ""
		}
		in := chunks
		if k.Kind == "mixed" {
			other := prefixes[0]
			if other == k.Prefix {
				other = prefixes[1]
			}
			foreign := []string{"h2", nodeenrollment.CertificatePreferenceV1Prefix + "some-key-id", other + "00-QUJD", "http/1.1"}
			in = append(append(append([]string{}, chunks[:k.Pos]...), foreign[k.Pos%len(foreign)], foreign[(k.Pos+1)%len(foreign)]), chunks[k.Pos:]...)
		}
		var got string
		before := append([]string{}, in...)
		if pm := guard(func() { got, err = nodetls.CombineFromNextProtos(k.Prefix, in) }); pm != "" {
			return "combine:panic:" + lenClass(len(chunks)), "CombineFromNextProtos panicked on its own encoder's output: " + pm
		}
		if err != nil {
			return "combine:error:" + lenClass(len(chunks)), fmt.Sprintf("CombineFromNextProtos failed: %v", err)
		}
		if got != p {
			d := 0
			for d < len(got) && d < len(p) && got[d] == p[d] {
				d++
			}
			return "roundtrip:" + k.Kind + ":" + lenClass(len(chunks)), fmt.Sprintf("prefix=%s len=%d chunks=%d content=%s: recombined payload differs (got %d bytes, first difference at offset %d)", pn, k.Len, len(chunks), k.Content, len(got), d)
		}
		// recombining is a pure function of the list: the caller's list (the
		// ClientHello's own protocol list on the server) is left as it was and
		// a second call gives the same answer
		for i := range before {
			if in[i] != before[i] {
				return "combine:modifies-its-input:" + k.Kind, fmt.Sprintf("prefix=%s len=%d chunks=%d: CombineFromNextProtos changed entry %d of the list it was given (%.40q -> %.40q)", pn, k.Len, len(chunks), i, before[i], in[i])
			}
		}
		if again, err := nodetls.CombineFromNextProtos(k.Prefix, in); err != nil || again != got {
			return "combine:second-call-differs:" + k.Kind, fmt.Sprintf("prefix=%s len=%d chunks=%d: recombining the same list a second time gives %d bytes (err %v), the first time %d", pn, k.Len, len(chunks), len(again), err, len(got))
		}
		r.Outcome("roundtrip-ok:" + lenClass(len(chunks)))
		r.Branch(lenClass(len(chunks)))
	case "malformed":
		for _, extra := range [][]string{nil, {k.Prefix + "00-QUJD"}} {
			in := append([]string{k.Entry}, extra...)
			if pm := guard(func() { _, _ = nodetls.CombineFromNextProtos(k.Prefix, in) }); pm != "" {
				return "malformed:panic", fmt.Sprintf("CombineFromNextProtos panicked on entry %q: %s", k.Entry, pm)
			}
		}
		r.Outcome("malformed-no-panic")
		r.Branch("malformed")
	}
	return "", ""
}

func cases(c *engine.Ctx, emit func(k kase)) {
	// largest payload whose entries fit the budget: found by construction
	for _, pfx := range prefixes {
		per := 240 - len(pfx)
		maxLen := 0
		for n := per; ; n += per {
			chunks := (n + per - 1) / per
			hdr := 3
			total := 0
			for i := 0; i < chunks; i++ {
				hdr = 3
				if i >= 100 {
					hdr = 4
				}
				total += 1 + len(pfx) + hdr + per
			}
			if total > alpnBudget {
				break
			}
			maxLen = n
		}
		patterns := []string{"position"}
		if c.Thorough() {
			patterns = []string{"position", "random"}
		}
		for n := 1; n <= maxLen; n++ {
			// quick: every length up to three chunks, then the three lengths
			// around every chunk-count boundary; thorough: every length
			if !c.Thorough() && n > 3*per {
				if m := n % per; m != 0 && m != 1 && m != per-1 {
					continue
				}
			}
			for _, pat := range patterns {
				emit(kase{Kind: "roundtrip", Prefix: pfx, Len: n, Content: pat, Seed: c.Seed})
			}
		}
		// adversarial contents and chunk-boundary lengths
		for _, pat := range []string{"hyphens", "header-like", "digits", "random", "utf8-2", "utf8-3", "utf8-4", "utf8-mixed", "all-bytes"} {
			for _, ch := range []int{1, 2, 3, 99, 100, 101, 102, 150, 267} {
				for d := -4; d <= 4; d++ {
					n := ch*per + d
					if n >= 1 && n <= maxLen {
						emit(kase{Kind: "roundtrip", Prefix: pfx, Len: n, Content: pat, Seed: c.Seed})
					}
				}
			}
		}
		// foreign names interleaved at every position, for a subset of lengths
		for _, n := range []int{1, per, per + 1, 3 * per, 10*per + 5, 101*per + 7} {
			if n > maxLen {
				continue
			}
			chunks := (n + per - 1) / per
			for pos := 0; pos <= chunks; pos++ {
				emit(kase{Kind: "mixed", Prefix: pfx, Len: n, Content: "random", Pos: pos, Seed: c.Seed})
				if n <= 10*per+5 {
					emit(kase{Kind: "mixed", Prefix: pfx, Len: n, Content: "utf8-mixed", Pos: pos, Seed: c.Seed})
				}
			}
		}
		// malformed entries: prefix + every string of length 0..3 over {0,-,x}
		alpha := []byte{'0', '1', '9', '-', 'x'}
		var gen func(cur string, depth int)
		gen = func(cur string, depth int) {
			emit(kase{Kind: "malformed", Prefix: pfx, Entry: pfx + cur})
			if depth == 4 {
				return
			}
			for _, a := range alpha {
				gen(cur+string(a), depth+1)
			}
		}
		gen("", 0)
		for _, e := range []string{"99-abc", "100-abc", "999999999999999999999-abc", "-1-abc", "01-", "1-"} {
			emit(kase{Kind: "malformed", Prefix: pfx, Entry: pfx + e})
		}
		// entries that are a strict prefix of the library prefix
		for i := 1; i < len(pfx); i += 5 {
			emit(kase{Kind: "malformed", Prefix: pfx, Entry: pfx[:i]})
		}
	}
}

func run(c *engine.Ctx, r *engine.Report) {
	r.Need("1-chunk", "2-100-chunks", ">100-chunks", "malformed")
	i := 0
	cases(c, func(k kase) {
		i++
		if !c.Mine(i) {
			return
		}
		r.Eval(1)
		sig, msg := one(k, r)
		if sig != "" {
			r.Violate(sig, msg, k)
			return
		}
		if !(k.Kind == "roundtrip" && k.Len <= 240-len(k.Prefix)) {
			r.Nontrivial(1) // single-chunk round trips are the trivial cases
		}
		if i%9973 == 1 || k.Kind == "malformed" && i%37 == 0 {
			r.Sample(k)
		}
	})
	if c.Shards > 1 {
		// every shard saw its share of each class only if the class is large;
		// the guards are evaluated on the merged report
	}
}

func replay(c *engine.Ctx, raw json.RawMessage) (string, bool) {
	var k kase
	if err := json.Unmarshal(raw, &k); err != nil {
		return err.Error(), false
	}
	r := engine.NewReport()
	sig, msg := one(k, r)
	if sig == "" {
		return fmt.Sprintf("case %+v: holds", k), false
	}
	return fmt.Sprintf("case %+v: %s: %s", k, sig, msg), true
}

func init() {
	engine.Register(&engine.CheckDef{
		ID:    "C20",
		Level: "exploration",
		Rule: "thorough: every payload length 1..Lmax; quick: every length up to three chunks plus the three lengths around every chunk-count boundary up to Lmax (Lmax = largest length whose entries fit a ClientHello's ALPN list) for both request prefixes with position-coded content (thorough: also seed-random content), adversarial contents (delimiter characters, header look-alikes, valid 2/3/4-byte UTF-8 sequences straddling chunk boundaries, every byte value incl. NUL and invalid UTF-8) at the nine lengths around each of nine chunk-count boundaries, the list given to CombineFromNextProtos must come back unmodified and a second call must agree, foreign names interleaved at every position for selected lengths, every malformed entry prefix+{0,1,9,-,x}^0..4 (alone and next to a genuine chunk); " +
			"distinct_nontrivial counts cases (all distinct by construction) other than single-chunk round trips",
		Assumptions: []string{"payload content beyond the listed patterns is not enumerated (a correct splitter is driven by byte length only; the adversarial contents cover the delimiter characters, multi-byte runes and arbitrary bytes)"},
		Shards:      func(c *engine.Ctx) int { return 16 },
		Run:         run,
		Replay:      replay,
	})
}
