// Package c18: the multiplexing listener never loses, duplicates or strands
// connections (E2: every interleaving, within the preemption bound, of
// ingress / accept / close / parent-cancel threads on the real
// MultiplexingListener whose locks, channel, select, once, context and go
// statements are owned by the scheduler; R: the same bodies free-running
// under -race).
package c18

import (
	"encoding/json"
	"errors"
	"fmt"
	"net"
	"sort"
	"strings"
	"sync"
	"sync/atomic"
	"time"

	vrt "github.com/hashicorp/nodeenrollment/zz_verif/vrt"
	"verif/checks/selftest"
	"verif/engine"
)

type scenario struct {
	Ingress int  `json:"ingress"`
	Accept  int  `json:"accept"`
	Close   int  `json:"close"`
	Cancel  bool `json:"cancel"`
	Feeder  int  `json:"feeder"` // connections delivered through IngressListener
	// FeederErr: the attached listener reports one error that is not
	// net.ErrClosed before it hands out its connections
	FeederErr bool `json:"feeder_error,omitempty"`
	// WithErr: every second direct ingress passes an error along with its connection
	WithErr bool `json:"ingress_with_error,omitempty"`
}

func (s scenario) String() string {
	x := fmt.Sprintf("ingress=%d accept=%d close=%d cancel=%v feeder=%d", s.Ingress, s.Accept, s.Close, s.Cancel, s.Feeder)
	if s.FeederErr {
		x += " feeder-error"
	}
	if s.WithErr {
		x += " ingress-with-error"
	}
	return x
}

type fakeConn struct {
	id     int
	closed int32
}

func (f *fakeConn) Read([]byte) (int, error)         { return 0, errors.New("fake") }
func (f *fakeConn) Write(b []byte) (int, error)      { return len(b), nil }
func (f *fakeConn) Close() error                     { atomic.AddInt32(&f.closed, 1); return nil }
func (f *fakeConn) LocalAddr() net.Addr              { return &net.TCPAddr{} }
func (f *fakeConn) RemoteAddr() net.Addr             { return &net.TCPAddr{} }
func (f *fakeConn) SetDeadline(time.Time) error      { return nil }
func (f *fakeConn) SetReadDeadline(time.Time) error  { return nil }
func (f *fakeConn) SetWriteDeadline(time.Time) error { return nil }

// fakeListener hands out n connections, then reports closed.
type fakeListener struct {
	conns []*fakeConn
	next  int32
	given *int32 // how many connections were handed out
	// errFirst: the first Accept fails with an error that is not net.ErrClosed
	errFirst int32
}

var errFeeder = errors.New("accept: too many open files")

// errCarried travels with a connection through IngressConn.
var errCarried = errors.New("carried along with the connection")

func (l *fakeListener) Accept() (net.Conn, error) {
	if atomic.CompareAndSwapInt32(&l.errFirst, 1, 0) {
		return nil, errFeeder
	}
	i := int(atomic.AddInt32(&l.next, 1)) - 1
	if i >= len(l.conns) {
		return nil, net.ErrClosed
	}
	atomic.AddInt32(l.given, 1)
	return l.conns[i], nil
}
func (l *fakeListener) Close() error   { return nil }
func (l *fakeListener) Addr() net.Addr { return &net.TCPAddr{} }

type acceptRec struct {
	Start int64
	End   int64
	Conn  int // -1 = none
	Err   string
}

type obs struct {
	mu            sync.Mutex
	clock         int64
	conns         []*fakeConn
	accepts       []acceptRec
	closeReturned []int64
	ingressDone   int
	closeDone     int
	clk           clockID
	fed           int32 // connections the feeder's listener handed out
	direct        int   // connections ingressed directly
}

// clockID makes the harness clock a scheduler-visible object: transitions that
// read it are mutually dependent, so the sleep-set search keeps both orders of
// "Close returned" and "Accept started".
type clockID struct{ id int }

func (c *clockID) VrtID() *int { return &c.id }

func (o *obs) tick() int64 {
	vrt.Touch(&o.clk)
	return atomic.AddInt64(&o.clock, 1)
}

// body spawns the scenario's threads. Under the scheduler vrt.Go creates
// managed threads; free-running it creates goroutines (joined by WaitFree).
func body(sc scenario) *obs {
	o := &obs{direct: sc.Ingress}
	l, cancel := newListener()
	vrt.Register(l, &o.clk) // stable identities for the sleep-set search
	for i := 0; i < sc.Ingress+sc.Feeder; i++ {
		o.conns = append(o.conns, &fakeConn{id: i})
	}
	for i := 0; i < sc.Ingress; i++ {
		c := o.conns[i]
		var carried error
		if sc.WithErr && i%2 == 0 {
			carried = errCarried
		}
		vrt.Go(func() {
			l.IngressConn(c, carried)
			o.mu.Lock()
			o.ingressDone++
			o.mu.Unlock()
		})
	}
	if sc.Feeder > 0 {
		fl := &fakeListener{conns: o.conns[sc.Ingress:], given: &o.fed}
		if sc.FeederErr {
			fl.errFirst = 1
		}
		if err := l.IngressListener(fl); err != nil {
			panic(err)
		}
	}
	for j := 0; j < sc.Accept; j++ {
		vrt.Go(func() {
			start := o.tick()
			c, err := l.Accept()
			rec := acceptRec{Start: start, End: o.tick(), Conn: -1}
			if err != nil && !(errors.Is(err, errCarried) && c != nil) {
				// (an error that came in with a connection is handed out with it)
				rec.Err = err.Error()
				if !errors.Is(err, net.ErrClosed) {
					rec.Err = "unexpected: " + rec.Err
				}
			}
			if fc, ok := c.(*fakeConn); ok {
				rec.Conn = fc.id
			} else if c != nil {
				rec.Err = "unexpected connection value"
			}
			o.mu.Lock()
			o.accepts = append(o.accepts, rec)
			o.mu.Unlock()
		})
	}
	for x := 0; x < sc.Close; x++ {
		vrt.Go(func() {
			if err := l.Close(); err != nil {
				panic(err)
			}
			t := o.tick()
			o.mu.Lock()
			o.closeReturned = append(o.closeReturned, t)
			o.closeDone++
			o.mu.Unlock()
		})
	}
	if sc.Cancel {
		vrt.Go(func() { cancel() })
	}
	return o
}

// judge evaluates the property on a finished execution.
func judge(sc scenario, o *obs) string {
	if o.closeDone != sc.Close {
		return fmt.Sprintf("only %d of %d Close calls returned", o.closeDone, sc.Close)
	}
	if o.ingressDone != sc.Ingress {
		return fmt.Sprintf("only %d of %d IngressConn calls returned", o.ingressDone, sc.Ingress)
	}
	if len(o.accepts) != sc.Accept {
		return fmt.Sprintf("only %d of %d Accept calls returned", len(o.accepts), sc.Accept)
	}
	returned := map[int]int{}
	firstClose := int64(-1)
	for _, t := range o.closeReturned {
		if firstClose < 0 || t < firstClose {
			firstClose = t
		}
	}
	for _, a := range o.accepts {
		if strings.HasPrefix(a.Err, "unexpected") {
			return "Accept returned " + a.Err
		}
		if a.Conn >= 0 {
			returned[a.Conn]++
			if a.Err != "" {
				return "Accept returned both a connection and an error"
			}
		} else if a.Err == "" {
			return "Accept returned neither a connection nor an error"
		}
		if firstClose >= 0 && a.Start > firstClose && a.Conn >= 0 {
			return fmt.Sprintf("an Accept call that started after Close had returned handed out connection %d instead of reporting the listener closed", a.Conn)
		}
	}
	for _, c := range o.conns {
		if c.id >= o.direct+int(atomic.LoadInt32(&o.fed)) {
			continue // never handed to the listener
		}
		n, closed := returned[c.id], atomic.LoadInt32(&c.closed)
		switch {
		case n > 1:
			return fmt.Sprintf("connection %d was returned by %d Accept calls", c.id, n)
		case n == 1 && closed > 0:
			return fmt.Sprintf("connection %d was returned by Accept and also closed by the listener", c.id)
		case n == 0 && closed == 0:
			return fmt.Sprintf("connection %d was neither returned by an Accept call nor closed (stranded)", c.id)
		}
	}
	return ""
}

func outcome(sc scenario, o *obs) string {
	var parts []string
	for _, c := range o.conns {
		st := "closed"
		for _, a := range o.accepts {
			if a.Conn == c.id {
				st = "accepted"
			}
		}
		parts = append(parts, st)
	}
	sort.Strings(parts)
	n := 0
	for _, a := range o.accepts {
		if a.Conn < 0 {
			n++
		}
	}
	return strings.Join(parts, ",") + fmt.Sprintf("|accept-errors=%d", n)
}

func scenarios(c *engine.Ctx) []scenario {
	if !c.Thorough() {
		return []scenario{
			{Ingress: 1, Accept: 1, Close: 1},
			{Ingress: 2, Accept: 1, Close: 1},
			{Ingress: 1, Accept: 2, Close: 1},
			{Ingress: 1, Accept: 1, Close: 1, Cancel: true},
			{Ingress: 1, Accept: 1, Close: 2},
			{Ingress: 0, Accept: 1, Close: 1, Feeder: 2},
			{Ingress: 1, Accept: 0, Close: 2, Cancel: true},
			// an attached listener that still delivers after the first Close, and a second Close
			{Ingress: 0, Accept: 0, Close: 2, Feeder: 1},
			{Ingress: 0, Accept: 1, Close: 2, Feeder: 1},
			// a connection that is passed in together with an error; an attached listener that fails once
			{Ingress: 2, Accept: 1, Close: 1, WithErr: true},
			{Ingress: 0, Accept: 1, Close: 1, Feeder: 1, FeederErr: true},
		}
	}
	var out []scenario
	for k := 0; k <= 3; k++ {
		for m := 0; m <= 2; m++ {
			for cl := 1; cl <= 2; cl++ {
				for _, cancel := range []bool{false, true} {
					for _, f := range []int{0, 2} {
						if k+f == 0 || k+f > 3 {
							continue
						}
						out = append(out, scenario{Ingress: k, Accept: m, Close: cl, Cancel: cancel, Feeder: f})
						if k == 2 && m == 1 && !cancel && f == 0 {
							out = append(out, scenario{Ingress: k, Accept: m, Close: cl, WithErr: true})
						}
						if k == 0 && m == 1 && !cancel && f == 2 {
							out = append(out, scenario{Accept: m, Close: cl, Feeder: f, FeederErr: true})
						}
					}
				}
			}
		}
	}
	return out
}

type replayData struct {
	Scenario scenario `json:"scenario"`
	Choices  []int    `json:"choices"`
	Bound    int      `json:"bound"`
}

func dfsConfig(sc scenario, c *engine.Ctx, bound int) engine.DFSConfig {
	return engine.DFSConfig{
		Name: sc.String(), Bound: bound, Deadline: c.Deadline, MaxSteps: 5000,
		Body:  func() any { return body(sc) },
		Check: func(x *vrt.Execution, ob any) string { return judge(sc, ob.(*obs)) },
		Outcome: func(x *vrt.Execution, ob any) string {
			if x.Failure != "" {
				return x.FailKind
			}
			return outcome(sc, ob.(*obs))
		},
	}
}

func run(c *engine.Ctx, r *engine.Report) {
	if !underScheduler {
		r.InfraError("C18 must run in the scheduler build")
		return
	}
	r.Need("explored", "unbounded-pass", "scenario-with-several-outcomes", "outcome:some-accepted", "outcome:some-closed")
	if c.Shard == 0 {
		// trusted base: the shims must reproduce the documented outcome sets of the litmus programs
		if msg, n := selftest.Run(); msg != "" {
			r.InfraError("shim self-test failed: " + msg)
			return
		} else {
			r.Extra["shim_selftest_schedules"] = float64(n)
			r.Extra["sleep_set_selftest"] = selftest.Reduction
		}
	}
	scs := scenarios(c)
	boundsFor := func(sc scenario) []int {
		n := sc.Ingress + sc.Accept + sc.Close
		if sc.Cancel {
			n++
		}
		if sc.Feeder > 0 {
			n++
		}
		if c.Thorough() && n <= 4 {
			return []int{3}
		}
		return []int{2}
	}
	// split each scenario's search over the shards at its first branching level
	per := time.Until(c.Deadline) / time.Duration(len(scs)+1)
	for si, sc := range scs {
		for _, b := range boundsFor(sc) {
			cfg := dfsConfig(sc, c, b)
			cfg.Shard, cfg.Shards = c.Shard, c.Shards
			if per > 0 {
				d := time.Now().Add(per)
				if d.Before(c.Deadline) {
					cfg.Deadline = d
				}
			}
			res := engine.RunDFS(cfg)
			r.Eval(int64(res.Executions))
			r.Traces += int64(res.Executions)
			r.AddExtra("schedules_explored", float64(res.Executions))
			if c.Shard == 0 {
				r.AddExtra("scenarios", 1)
				r.Extra[fmt.Sprintf("max_choice_points[%s]", sc)] = float64(res.MaxDepth)
			}
			if !res.Exhaustive {
				r.Incomplete(fmt.Sprintf("scenario {%s} bound %d cut by the deadline after %d schedules on shard %d", sc, b, res.Executions, c.Shard))
			}
			if int64(b) > r.MaxDepth {
				r.MaxDepth = int64(b)
			}
			r.Extra["preemption_bound_completed"] = float64(b)
			r.Branch("explored")
			if len(res.Outcomes) > 1 {
				r.Branch("scenario-with-several-outcomes")
			}
			for o, n := range res.Outcomes {
				r.Outcomes[fmt.Sprintf("{%s} %s", sc, o)] += int64(n)
				if strings.Contains(o, "accepted") {
					r.Branch("outcome:some-accepted")
				}
				if strings.Contains(o, "closed") {
					r.Branch("outcome:some-closed")
				}
			}
			for _, v := range res.Violations {
				kind := "accounting"
				switch {
				case strings.HasPrefix(v.Message, "deadlock"):
					kind = "deadlock"
				case strings.HasPrefix(v.Message, "panic"):
					kind = "panic"
				case strings.Contains(v.Message, "stranded"):
					kind = "stranded"
				case strings.Contains(v.Message, "also closed"):
					kind = "returned-and-closed"
				case strings.Contains(v.Message, "after Close"):
					kind = "accept-after-close"
				case strings.Contains(v.Message, "returned by"):
					kind = "duplicated"
				}
				r.Violate(kind, fmt.Sprintf("scenario {%s}, schedule %v: %s", sc, v.Choices, v.Message), replayData{sc, v.Choices, b})
			}
			if si%2 == 0 && c.Shard == 0 {
				r.Sample(map[string]any{"scenario": sc.String(), "preemption_bound": b, "schedules_on_this_shard": res.Executions, "distinct_outcomes": len(res.Outcomes)})
			}
		}
	}
	// second pass: *all* interleavings (no preemption bound) up to the
	// equivalence of the sleep-set reduction; scenarios are dealt to the shards
	for si, sc := range scs {
		if !c.Mine(si) {
			continue
		}
		cfg := dfsConfig(sc, c, -1)
		if rem := time.Until(c.Deadline); rem > 0 {
			// an even share of what is left for the scenarios still to come on this shard
			left := 0
			for sj := si; sj < len(scs); sj++ {
				if c.Mine(sj) {
					left++
				}
			}
			cfg.Deadline = time.Now().Add(rem / time.Duration(left))
		}
		res := engine.RunPORDFS(cfg)
		r.Eval(int64(res.Executions))
		r.Traces += int64(res.Executions)
		r.AddExtra("unbounded_sleep_set_executions", float64(res.Executions))
		r.Branch("unbounded-pass")
		if !res.Exhaustive {
			r.Incomplete(fmt.Sprintf("scenario {%s}: unbounded sleep-set pass cut by the deadline after %d executions", sc, res.Executions))
		} else {
			r.AddExtra("scenarios_exhausted_without_bound", 1)
		}
		for o, n := range res.Outcomes {
			if o == "(sleep-set pruned)" {
				r.AddExtra("sleep_set_pruned_executions", float64(n))
				continue
			}
			key := fmt.Sprintf("{%s} %s", sc, o)
			if _, seen := r.Outcomes[key]; !seen && c.Shards == 1 {
				r.Outcomes["unbounded-only:"+key] += int64(n)
			}
		}
		for _, v := range res.Violations {
			kind := "accounting"
			switch {
			case strings.HasPrefix(v.Message, "deadlock"):
				kind = "deadlock"
			case strings.HasPrefix(v.Message, "panic"):
				kind = "panic"
			case strings.Contains(v.Message, "stranded"):
				kind = "stranded"
			}
			r.Violate("unbounded:"+kind, fmt.Sprintf("scenario {%s}, sleep-set schedule %v: %s", sc, v.Choices, v.Message), replayData{Scenario: sc, Choices: v.Choices, Bound: -1})
		}
	}
	r.Nontrivial(int64(len(r.Outcomes)))
}

func raceRun(c *engine.Ctx, r *engine.Report) {
	reps := 300
	if c.Thorough() {
		reps = 3000
	}
	for _, sc := range scenarios(c) {
		for i := 0; i < reps; i++ {
			done := make(chan *obs, 1)
			go func() {
				o := body(sc)
				vrt.WaitFree()
				done <- o
			}()
			select {
			case o := <-done:
				r.Eval(1)
				msg := judge(sc, o)
				// the listener's own drain goroutine is not ours to join: give
				// it time to close what it received before calling a
				// connection stranded (a stranded one stays stranded)
				for w := 0; msg != "" && strings.Contains(msg, "stranded") && w < 2000; w++ {
					time.Sleep(5 * time.Millisecond)
					msg = judge(sc, o)
				}
				if msg == "" {
					r.Outcome(fmt.Sprintf("free:{%s} %s", sc, outcome(sc, o)))
				}
				if msg != "" {
					r.Violate("race-run:"+strings.Fields(msg)[0], fmt.Sprintf("free-running scenario {%s}: %s", sc, msg), replayData{Scenario: sc})
					return // one is enough; every further stranded connection would cost the full grace period
				}
			case <-time.After(20 * time.Second):
				r.Violate("race-run:stuck", fmt.Sprintf("free-running scenario {%s} did not finish within 20 s (a Close or IngressConn call never returned)", sc), replayData{Scenario: sc})
				return
			}
		}
		r.Outcome("scenarios")
	}
}

func replay(c *engine.Ctx, raw json.RawMessage) (string, bool) {
	var rd replayData
	if err := json.Unmarshal(raw, &rd); err != nil {
		return err.Error(), false
	}
	if rd.Choices == nil {
		return "free-running finding: not schedule-replayable, re-run the check", false
	}
	if rd.Bound < 0 {
		var ob any
		x := vrt.RunPOR(rd.Choices, len(rd.Choices), nil, vrt.Options{Trace: true, MaxSteps: 5000}, func() { ob = body(rd.Scenario) })
		msg := x.Failure
		if msg == "" {
			msg = judge(rd.Scenario, ob.(*obs))
		}
		return fmt.Sprintf("scenario {%s}\nsleep-set schedule %v\ntrace: %s\n%s", rd.Scenario, rd.Choices, strings.Join(x.Trace, " | "), msg), msg != ""
	}
	x, _, msg := engine.RunOnce(dfsConfig(rd.Scenario, c, rd.Bound), rd.Choices, true)
	return fmt.Sprintf("scenario {%s}\nschedule %v\ntrace: %s\n%s", rd.Scenario, rd.Choices, strings.Join(x.Trace, " | "), msg), msg != ""
}

func init() {
	engine.Register(&engine.CheckDef{
		ID:     "C18",
		Level:  "exploration",
		Binary: "sched",
		Rule: "thread sets {ingress x k, accept x m, close x c, optional parent cancel, optional IngressListener feeder} over one real MultiplexingListener (quick: 11 scenarios with up to four harness threads, incl. a connection passed in together with an error and an attached listener that fails once with an error other than net.ErrClosed; thorough: all k+feeder<=3, m<=2, c<=2, cancel on/off) explored depth-first (a) over every schedule with at most 2 preemptions (thorough: 3 for thread sets of up to four harness threads), select branches included, without any reduction, and (b) over all interleavings without a bound, reduced by sleep sets (footprint-based dependence); oracle: no deadlock, no panic, every call returns, every connection is returned by exactly one Accept xor closed, no Accept that starts after a Close returned hands out a connection; " +
			"evaluations = schedules executed; distinct_nontrivial = distinct (scenario, per-connection fate, accept errors) outcomes observed",
		Assumptions: []string{"scheduling points are the synchronisation operations of net/splitlistener.go (sequential consistency between them); the shims follow the Go runtime's algorithms for RWMutex writer preference, channel hand-off, select and close", "executions beyond the preemption bound are not covered; 'randomized stress with many goroutines' is sampled by the race companion only"},
		Shards:      func(c *engine.Ctx) int { return 16 },
		Run:         run,
		RaceRun:     raceRun,
		Replay:      replay,
	})
}
