//go:build !vsched

package c18

import (
	"context"
	"net"

	nenet "github.com/hashicorp/nodeenrollment/net"
)

const underScheduler = false

func newListener() (*nenet.MultiplexingListener, func()) {
	parent, cancel := context.WithCancel(context.Background())
	l, err := nenet.NewMultiplexingListener(parent, &net.TCPAddr{})
	if err != nil {
		panic(err)
	}
	return l, func() { cancel() }
}
