//go:build vsched

package c18

import (
	"net"

	nenet "github.com/hashicorp/nodeenrollment/net"
	vcontext "github.com/hashicorp/nodeenrollment/zz_verif/vcontext"
)

const underScheduler = true

// newListener builds a MultiplexingListener under a cancellable parent
// context (the scheduler-owned context type in this build).
func newListener() (*nenet.MultiplexingListener, func()) {
	parent, cancel := vcontext.WithCancel(vcontext.Background())
	l, err := nenet.NewMultiplexingListener(parent, &net.TCPAddr{})
	if err != nil {
		panic(err)
	}
	return l, func() { cancel() }
}
