// Package selftest validates the scheduler shims against the documented
// semantics of the Go primitives they replace, by exhaustively exploring
// classic litmus programs and comparing the *set* of outcomes. It is part of
// the trusted-base argument for C18/C19 and runs at the start of C18.
package selftest

import (
	"fmt"
	"sort"
	"strings"

	vchan "github.com/hashicorp/nodeenrollment/zz_verif/vchan"
	vcontext "github.com/hashicorp/nodeenrollment/zz_verif/vcontext"
	vrt "github.com/hashicorp/nodeenrollment/zz_verif/vrt"
	vsync "github.com/hashicorp/nodeenrollment/zz_verif/vsync"
	"verif/engine"
)

type litmus struct {
	Name string
	Body func() func() string // returns the observation function
	Want []string             // exact set of outcomes (failure kinds included)
}

func outcomes(l litmus) (map[string]int, int) {
	return outcomesWith(l, false)
}

func outcomesWith(l litmus, por bool) (map[string]int, int) {
	run := engine.RunDFS
	if por {
		run = engine.RunPORDFS
	}
	res := run(engine.DFSConfig{Name: l.Name, Bound: -1, MaxSteps: 2000, MaxViolations: 1 << 30,
		Body: func() any { return l.Body() },
		Outcome: func(x *vrt.Execution, ob any) string {
			if x.Failure != "" {
				if x.FailKind == "panic" {
					f := strings.SplitN(x.Failure, ": ", 2)[1]
					return "panic:" + strings.SplitN(f, "\n", 2)[0]
				}
				return x.FailKind
			}
			return ob.(func() string)()
		},
		Check: func(*vrt.Execution, any) string { return "" },
	})
	return res.Outcomes, res.Executions
}

func programs() []litmus {
	return append(independentPrograms(), []litmus{
		{"unprotected increment loses updates, mutex does not", func() func() string {
			var m vsync.Mutex
			vrt.Register(&m)
			a, b := 0, 0
			for i := 0; i < 2; i++ {
				vrt.Go(func() {
					t := a
					vrt.Yield("racy read-modify-write")
					a = t + 1
					m.Lock()
					t2 := b
					vrt.Yield("inside critical section")
					b = t2 + 1
					m.Unlock()
				})
			}
			return func() string { return fmt.Sprintf("racy=%d locked=%d", a, b) }
		}, []string{"racy=1 locked=2", "racy=2 locked=2"}},
		{"lock order inversion deadlocks in some schedules", func() func() string {
			var m1, m2 vsync.Mutex
			vrt.Register(&m1, &m2)
			vrt.Go(func() { m1.Lock(); m2.Lock(); m2.Unlock(); m1.Unlock() })
			vrt.Go(func() { m2.Lock(); m1.Lock(); m1.Unlock(); m2.Unlock() })
			return func() string { return "done" }
		}, []string{"deadlock", "done"}},
		{"RWMutex: a pending writer blocks new readers (writer preference)", func() func() string {
			var rw vsync.RWMutex
			vrt.Register(&rw)
			var order []string
			rw.RLock() // main holds a read lock
			w := false
			vrt.Go(func() { rw.Lock(); w = true; order = append(order, "W"); rw.Unlock() })
			vrt.Go(func() {
				rw.RLock()
				order = append(order, fmt.Sprintf("R(sees-writer-done=%v)", w))
				rw.RUnlock()
			})
			vrt.Yield("main before RUnlock")
			rw.RUnlock()
			return func() string { return strings.Join(order, ",") }
		}, []string{"R(sees-writer-done=false),W", "W,R(sees-writer-done=true)"}},
		{"RWMutex: readers queued behind a writer are all admitted at Unlock, before the next writer", func() func() string {
			var rw vsync.RWMutex
			vrt.Register(&rw)
			var order []string
			rw.Lock()
			for i := 0; i < 2; i++ {
				vrt.Go(func() { rw.RLock(); order = append(order, "R"); rw.RUnlock() })
			}
			vrt.Go(func() {
				vrt.Await(func() bool { return vsync.QueuedReaders(&rw) == 2 }, "wait until both readers queued")
				rw.Unlock()
				rw.Lock()
				order = append(order, "W2")
				rw.Unlock()
			})
			return func() string { return strings.Join(order, ",") }
		}, []string{"R,R,W2"}},
		{"unbuffered channel: rendezvous, close gives (zero,false), send on closed panics", func() func() string {
			c := vchan.Make[int](0)
			vrt.Register(c)
			var got []string
			vrt.Go(func() { vchan.Send(c, 7) })
			vrt.Go(func() {
				v, ok := vchan.Recv2(c)
				got = append(got, fmt.Sprintf("%d/%v", v, ok))
				v, ok = vchan.Recv2(c)
				got = append(got, fmt.Sprintf("%d/%v", v, ok))
			})
			vrt.Go(func() { vchan.Close(c) })
			return func() string { return strings.Join(got, ",") }
		}, []string{"7/true,0/false", "0/false,0/false|panic", "panic:send on closed channel"}},
		{"select with two ready cases takes either; default only when none is ready", func() func() string {
			a, b := vchan.Make[int](1), vchan.Make[int](1)
			vrt.Register(a, b)
			vchan.Send(a, 1)
			vchan.Send(b, 2)
			var r string
			var x, y int
			switch vchan.Select(true, vchan.RecvCase(a, &x, nil), vchan.RecvCase(b, &y, nil)) {
			case 0:
				r = "a"
			case 1:
				r = "b"
			default:
				r = "default"
			}
			e := vchan.Make[int](0)
			if vchan.Select(true, vchan.RecvCase(e, nil, nil)) == -1 {
				r += "+default-on-empty"
			}
			return func() string { return r }
		}, []string{"a+default-on-empty", "b+default-on-empty"}},
		{"Once runs f once and late callers wait for it", func() func() string {
			var o vsync.Once
			vrt.Register(&o)
			n, seen := 0, []int{}
			for i := 0; i < 2; i++ {
				vrt.Go(func() {
					o.Do(func() { vrt.Yield("inside once"); n++ })
					seen = append(seen, n)
				})
			}
			return func() string { return fmt.Sprintf("n=%d seen=%v", n, seen) }
		}, []string{"n=1 seen=[1 1]"}},
		{"context: cancel closes Done of the context and its children; parked select wakes", func() func() string {
			p, cancel := vcontext.WithCancel(vcontext.Background())
			ch, _ := vcontext.WithCancel(p)
			data := vchan.Make[int](0)
			vrt.Register(p, ch, data)
			var r string
			vrt.Go(func() {
				switch vchan.Select(false, vchan.RecvCase(ch.Done(), nil, nil), vchan.RecvCase(data, nil, nil)) {
				case 0:
					r = fmt.Sprintf("done err=%v", ch.Err())
				case 1:
					r = "data"
				}
			})
			vrt.Go(func() { cancel() })
			return func() string { return r }
		}, []string{"done err=context canceled"}},
	}...)
}

// independentPrograms have threads working on disjoint objects plus one
// shared one: the reduction must prune there without losing an outcome.
func independentPrograms() []litmus {
	return []litmus{
		{"three threads on private mutexes, then one shared counter under a shared mutex", func() func() string {
			var priv [3]vsync.Mutex
			var shared vsync.Mutex
			vrt.Register(&priv[0], &priv[1], &priv[2], &shared)
			order := ""
			for i := 0; i < 3; i++ {
				i := i
				vrt.Go(func() {
					priv[i].Lock()
					priv[i].Unlock()
					priv[i].Lock()
					priv[i].Unlock()
					shared.Lock()
					order += fmt.Sprint(i)
					shared.Unlock()
				})
			}
			return func() string { return order }
		}, []string{"012", "021", "102", "120", "201", "210"}},
		{"producer/consumer over a buffered channel next to an unrelated mutex user", func() func() string {
			c := vchan.Make[int](1)
			var m vsync.Mutex
			vrt.Register(c, &m)
			sum, n := 0, 0
			vrt.Go(func() { vchan.Send(c, 1); vchan.Send(c, 2); vchan.Close(c) })
			vrt.Go(func() {
				for {
					v, ok := vchan.Recv2(c)
					if !ok {
						break
					}
					sum += v
				}
			})
			vrt.Go(func() {
				m.Lock()
				n++
				m.Unlock()
				m.Lock()
				n++
				m.Unlock()
			})
			return func() string { return fmt.Sprintf("sum=%d n=%d", sum, n) }
		}, []string{"sum=3 n=2"}},
	}
}

// Reduction records, per litmus program, the size of the full and of the reduced search.
var Reduction []string

// Run executes every litmus program and returns a description of the first mismatch.
func Run() (string, int) {
	total := 0
	for _, l := range programs() {
		got, n := outcomes(l)
		total += n
		var g []string
		for k := range got {
			g = append(g, k)
		}
		sort.Strings(g)
		w := append([]string{}, l.Want...)
		// the channel litmus has schedule-dependent combinations; compare as sets with normalisation
		if strings.HasPrefix(l.Name, "unbuffered channel") {
			ok := true
			for _, k := range g {
				if !(k == "7/true,0/false" || k == "panic:send on closed channel" || k == "0/false,0/false") {
					ok = false
				}
			}
			if !ok || !contains(g, "7/true,0/false") || !contains(g, "panic:send on closed channel") {
				return fmt.Sprintf("litmus %q: outcomes %v", l.Name, g), total
			}
			continue
		}
		sort.Strings(w)
		if strings.Join(g, "|") != strings.Join(w, "|") {
			return fmt.Sprintf("litmus %q: outcomes %v, want %v", l.Name, g, w), total
		}
	}
	// the sleep-set search must reach exactly the outcomes of the full search
	for _, l := range programs() {
		full, nf := outcomesWith(l, false)
		red, n := outcomesWith(l, true)
		total += n
		Reduction = append(Reduction, fmt.Sprintf("%s: %d executions -> %d with sleep sets", l.Name, nf, n))
		delete(red, "(sleep-set pruned)")
		for k := range full {
			if _, ok := red[k]; !ok {
				return fmt.Sprintf("litmus %q: the sleep-set search misses outcome %q of the full search (has %v)", l.Name, k, red), total
			}
		}
		for k := range red {
			if _, ok := full[k]; !ok {
				return fmt.Sprintf("litmus %q: the sleep-set search invents outcome %q", l.Name, k), total
			}
		}
	}
	return "", total
}

func contains(l []string, s string) bool {
	for _, x := range l {
		if x == s {
			return true
		}
	}
	return false
}
