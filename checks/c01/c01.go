// Package c01: node credentials are issued only for authorized enrollment
// requests (E1: explicit-state search over operator actions and well-signed
// fetch requests against the real registration package).
package c01

import (
	"encoding/json"
	"fmt"
	"sort"
	"strings"
	"time"

	wrapping "github.com/hashicorp/go-kms-wrapping/v2"
	"github.com/hashicorp/nodeenrollment"
	"github.com/hashicorp/nodeenrollment/registration"
	"github.com/hashicorp/nodeenrollment/rotation"
	"github.com/hashicorp/nodeenrollment/types"
	vclock "github.com/hashicorp/nodeenrollment/zz_verif/vclock"
	"google.golang.org/protobuf/proto"
	"verif/engine"
	"verif/harness"
)

const tokenLife = time.Hour

type world struct {
	p          *harness.Pool
	kr         *harness.CertKey // re-wrapping node R
	er         *harness.EncKey
	ku         *harness.CertKey // never registered
	w, wx      wrapping.Wrapper // registration wrapper and a foreign one
	tok        map[string]*harness.Token
	nonces     map[string][]byte // name -> bytes
	encs       map[string][]byte
	seed       int64
	rServerPub []byte
}

func newWorld(seed int64) *world {
	w := &world{p: harness.NewPool(seed, 3, 2, 0, 2), seed: seed}
	w.kr = harness.NewCertKey("KR", seed)
	w.er = harness.NewEncKey("ER", seed)
	w.ku = harness.NewCertKey("KU", seed)
	w.w = harness.Wrapper("registration", seed)
	w.wx = harness.Wrapper("foreign-registration", seed)
	w.tok = map[string]*harness.Token{"T1": harness.TokenPreview("T1", seed), "T2": harness.TokenPreview("T2", seed)}
	w.nonces = map[string][]byte{
		"N1": w.p.N[0], "N2": w.p.N[1], "T1": w.tok["T1"].Bytes, "T2": w.tok["T2"].Bytes,
		"Tx": harness.ForgedToken(seed), "Tg": {0xff, 0xff, 0xff, 0xff, 0xff},
	}
	w.encs = map[string][]byte{"E1": w.p.E[0].Pub, "E2": w.p.E[1].Pub, "ER": w.er.Pub}
	w.encs["E1t"] = w.enc("E1t").Pub
	return w
}

func (w *world) key(name string) *harness.CertKey {
	switch name {
	case "KR":
		return w.kr
	case "KU":
		return w.ku
	}
	return w.p.K[int(name[1]-'1')]
}
func (w *world) enc(name string) *harness.EncKey {
	if name == "ER" {
		return w.er
	}
	if name == "E1t" {
		// E1's key pair with the top bit of the public key's last byte flipped:
		// X25519 ignores that bit, a byte comparison must not
		e := *w.p.E[0]
		e.Pub = append([]byte{}, e.Pub...)
		e.Pub[len(e.Pub)-1] ^= 0x80
		return &e
	}
	return w.p.E[int(name[1]-'1')]
}

// state of the search
type state struct {
	st     *harness.MemStore
	issued map[string]bool // tokens handed to the operator
	epoch  int             // number of age steps (virtual now = T0 + epoch*(tokenLife+1ns))
	hasR   bool
	reinit bool // the operator has replaced the server's roots since the start
}

func (s *state) clone() *state {
	c := &state{st: s.st.Clone(), issued: map[string]bool{}, epoch: s.epoch, hasR: s.hasR, reinit: s.reinit}
	for k, v := range s.issued {
		c.issued[k] = v
	}
	return c
}

func epochTime(e int) time.Time {
	return harness.T0.Add(time.Duration(e) * (tokenLife + time.Nanosecond))
}

// abstract view of the server store
type view struct {
	rec map[string][2]string // key name -> (nonce name, enc name)
	tok map[string]string    // token name -> unissued|outstanding|expired|consumed
}

func (w *world) abstract(s *state) view {
	v := view{rec: map[string][2]string{}, tok: map[string]string{}}
	for _, kn := range []string{"K1", "K2", "K3", "KR", "KU"} {
		if n := s.st.NodeInfo(w.key(kn).KeyId); n != nil {
			v.rec[kn] = [2]string{harness.Lookup(n.RegistrationNonce, w.nonces), harness.Lookup(n.EncryptionPublicKeyBytes, w.encs)}
		}
	}
	now := epochTime(s.epoch)
	for _, tn := range []string{"T1", "T2"} {
		switch {
		case !s.issued[tn]:
			v.tok[tn] = "unissued"
		default:
			raw, ok := s.st.Raw("token", w.tok[tn].Id)
			if !ok {
				v.tok[tn] = "consumed"
				break
			}
			t := new(types.ServerLedActivationToken)
			if err := proto.Unmarshal(raw, t); err != nil {
				panic(err)
			}
			if t.CreationTime.AsTime().Add(tokenLife).Before(now) {
				v.tok[tn] = "expired"
			} else {
				v.tok[tn] = "outstanding"
			}
		}
	}
	return v
}

func (w *world) keyOf(s *state) string {
	v := w.abstract(s)
	var parts []string
	for _, kn := range []string{"K1", "K2", "K3", "KR"} {
		if r, ok := v.rec[kn]; ok {
			parts = append(parts, kn+"="+r[0]+"/"+r[1])
		}
	}
	for _, tn := range []string{"T1", "T2"} {
		parts = append(parts, tn+"="+v.tok[tn])
	}
	// every record and token id in the store takes part, so unexpected records are never merged away
	parts = append(parts, "ids="+strings.Join(s.st.Ids("nodeinfo"), ","))
	if s.reinit {
		parts = append(parts, "roots-replaced")
	}
	return strings.Join(parts, " ")
}

// fetch describes one well-signed fetch request.
type fetch struct {
	K, E, N string
	V       int  // wrapped-info variant 0..7
	W       bool // server configured with the registration wrapper
	S       bool // server call carries a *storage* wrapper: the foreign wrapper of variant 4
}

func (f fetch) label() string {
	if f.S {
		return fmt.Sprintf("fetch:%s:%s:%s:v%d:w%v:storage-wrapper", f.K, f.E, f.N, f.V, f.W)
	}
	return fmt.Sprintf("fetch:%s:%s:%s:v%d:w%v", f.K, f.E, f.N, f.V, f.W)
}

var variantNames = []string{"none", "W-sealed matching", "W-sealed other nonce", "W-sealed other key", "foreign-wrapper sealed matching", "re-wrapped by R matching", "re-wrapped by R other nonce", "re-wrapped under unregistered key id",
	"junk sealed info + self-supplied clear registration info", "W-sealed other nonce + self-supplied clear registration info", "self-supplied clear registration info only"}

func (w *world) otherNonce(n string) []byte {
	if n == "N1" {
		return w.nonces["N2"]
	}
	return w.nonces["N1"]
}

func (w *world) request(s *state, f fetch) *types.FetchNodeCredentialsRequest {
	k, e, nonce := w.key(f.K), w.enc(f.E), w.nonces[f.N]
	info := harness.Info(k, e, nonce)
	otherKey := w.p.K[0]
	if f.K == "K1" {
		otherKey = w.p.K[1]
	}
	switch f.V {
	case 1:
		info.WrappedRegistrationInfo = harness.SealRegistrationInfo(w.w, k.Pkix, nonce)
	case 2:
		info.WrappedRegistrationInfo = harness.SealRegistrationInfo(w.w, k.Pkix, w.otherNonce(f.N))
	case 3:
		info.WrappedRegistrationInfo = harness.SealRegistrationInfo(w.w, otherKey.Pkix, nonce)
	case 4:
		info.WrappedRegistrationInfo = harness.SealRegistrationInfo(w.wx, k.Pkix, nonce)
	}
	if f.V >= 8 {
		// the clear form of the registration info is a field of the bundle the
		// requester signs: a requester without access to the KMS fills it in itself
		info.WrappingRegistrationFlowInfo = &types.WrappingRegistrationFlowInfo{CertificatePublicKeyPkix: k.Pkix, Nonce: nonce}
		switch f.V {
		case 8:
			info.WrappedRegistrationInfo = []byte("not a sealed blob")
		case 9:
			info.WrappedRegistrationInfo = harness.SealRegistrationInfo(w.w, k.Pkix, w.otherNonce(f.N))
		}
	}
	req := harness.SignedRequest(info, k)
	if f.V >= 5 && f.V <= 7 {
		// R re-wraps with the key it shares with the server. R's node-side view
		// is rebuilt from pool keys and the server public key of R's record
		// (present in the initial store of every run that uses these variants).
		rc := harness.NodeCreds(w.kr, w.er, nil)
		rc.ServerEncryptionPublicKeyBytes = w.rServerPub
		rc.ServerEncryptionPublicKeyType = types.KEYTYPE_X25519
		n := nonce
		if f.V == 6 {
			n = w.otherNonce(f.N)
		}
		blob, err := nodeenrollment.EncryptMessage(harness.Ctx, &types.WrappingRegistrationFlowInfo{CertificatePublicKeyPkix: k.Pkix, Nonce: n}, rc)
		if err != nil {
			panic(err)
		}
		req.RewrappedWrappingRegistrationFlowInfo = blob
		req.RewrappingKeyId = w.kr.KeyId
		if f.V == 7 {
			req.RewrappingKeyId = w.ku.KeyId
		}
	}
	return req
}

func (w *world) opts(f fetch) []nodeenrollment.Option {
	o := []nodeenrollment.Option{nodeenrollment.WithMaximumServerLedActivationTokenLifetime(tokenLife)}
	if f.W {
		o = append(o, nodeenrollment.WithRegistrationWrapper(w.w))
	}
	if f.S {
		// the data-at-rest key is not the registration key: info sealed with it entitles to nothing
		o = append(o, nodeenrollment.WithStorageWrapper(w.wx))
	}
	return o
}

// doFetch runs one fetch on (a clone of) the state and evaluates the oracle.
// It returns the post state, a violation (signature, message) and the branch taken.
func (w *world) doFetch(s *state, f fetch) (*state, string, string, string) {
	pre := w.abstract(s)
	ns := s.clone()
	idsBefore := strings.Join(ns.st.Ids("nodeinfo"), ",")
	req := w.request(s, f)
	resp, err := registration.FetchNodeCredentials(harness.Ctx, ns.st, req, w.opts(f)...)
	idsAfter := strings.Join(ns.st.Ids("nodeinfo"), ",")

	rec, hasRec := pre.rec[f.K]
	a := hasRec && rec[0] == f.N && rec[1] == f.E
	b := (f.N == "T1" || f.N == "T2") && pre.tok[f.N] == "outstanding"
	_, rRegistered := pre.rec["KR"]
	c := (f.V == 1 && f.W) || (f.V == 5 && rRegistered)
	authorized := a || b || c
	creds := err == nil && harness.HasCreds(resp)
	why := fmt.Sprintf("request %s (%s) on state {%s}: a=%v b=%v c=%v", f.label(), variantNames[f.V], w.keyOf(s), a, b, c)
	switch {
	case creds && !authorized:
		return ns, "creds-unauthorized:" + classOf(f, pre), "credentials issued although none of (a) existing matching record, (b) outstanding token, (c) matching sealed registration info holds; " + why, ""
	case !authorized && idsAfter != idsBefore:
		return ns, "record-after-reject:" + classOf(f, pre), fmt.Sprintf("unauthorized request (err=%v) left a new node record: ids %s -> %s; %s", err, idsBefore, idsAfter, why), ""
	}
	if creds {
		// binding: only the requesting encryption key opens it and the nonce is echoed
		got, derr := harness.OpenResponse(resp, w.key(f.K), w.enc(f.E))
		if derr != nil {
			return ns, "response-not-for-requester", "credentials were issued but the requester's encryption key cannot open them: " + derr.Error() + "; " + why, ""
		}
		if string(got.RegistrationNonce) != string(w.nonces[f.N]) {
			return ns, "response-wrong-nonce", "credentials echo a nonce different from the request's; " + why, ""
		}
		otherE := "E1"
		if f.E == "E1" || f.E == "E1t" { // (E1t is E1's private key)
			otherE = "E2"
		}
		if _, oerr := harness.OpenResponse(resp, w.key(f.K), w.enc(otherE)); oerr == nil {
			return ns, "response-opens-with-other-key", "credentials open with an encryption key other than the one in the request; " + why, ""
		}
		switch {
		case c:
			return ns, "", "", "creds-by-c"
		case b:
			return ns, "", "", "creds-by-b"
		default:
			return ns, "", "", "creds-by-a"
		}
	}
	if err == nil {
		return ns, "", "", "empty-response"
	}
	if authorized {
		return ns, "", "", "error-although-authorized"
	}
	return ns, "", "", "rejected"
}

func classOf(f fetch, pre view) string {
	rec, has := pre.rec[f.K]
	switch {
	case f.V != 0:
		return fmt.Sprintf("wrapped-v%d", f.V)
	case len(f.N) == 2 && f.N[0] == 'T':
		return "token:" + pre.tok[f.N]
	case !has:
		return "no-record"
	case rec[0] != f.N && rec[1] != f.E:
		return "nonce+enc-differ"
	case rec[0] != f.N:
		return "nonce-differs"
	case rec[1] != f.E:
		return "enc-differs"
	}
	return "matching"
}

type menus struct {
	opKeys, fetchKeys []string
	encs              []string
	opNonces          []string
	fetchNonces       []string
	variants          []int
	tokens            []string
	depth             int
}

func menusFor(c *engine.Ctx) menus {
	if c.Thorough() {
		return menus{
			opKeys: []string{"K1", "K2"}, fetchKeys: []string{"K1", "K2", "K3"}, encs: []string{"E1", "E2"},
			opNonces: []string{"N1", "N2"}, fetchNonces: []string{"N1", "N2", "T1", "T2", "Tx", "Tg"},
			variants: []int{0, 1, 2, 3, 4, 5, 6, 7, 8, 9, 10}, tokens: []string{"T1", "T2"}, depth: 4,
		}
	}
	return menus{
		opKeys: []string{"K1", "K2"}, fetchKeys: []string{"K1", "K2", "K3"}, encs: []string{"E1", "E2"},
		opNonces: []string{"N1", "N2"}, fetchNonces: []string{"N1", "N2", "T1", "Tx"},
		variants: []int{0, 1, 2, 3, 4, 5, 6, 8, 9, 10}, tokens: []string{"T1"}, depth: 3,
	}
}

func (w *world) initial(hasR bool) *state {
	vclock.Freeze(harness.T0)
	s := &state{st: harness.NewMemStore(), issued: map[string]bool{}, hasR: hasR}
	harness.InitRoots(s.st)
	// R is always enrolled once so that its server key is known; it is removed
	// again in the initial state without R
	req := harness.SignedRequest(harness.Info(w.kr, w.er, harness.Bytes("R-nonce", 32)), w.kr)
	n, err := registration.AuthorizeNode(harness.Ctx, s.st, req, nodeenrollment.WithRandomReader(harness.DetRand("R-server-key")))
	if err != nil {
		panic(err)
	}
	w.rServerPub = harness.ServerPub(n)
	if !hasR {
		s.st.DeleteRaw("nodeinfo", w.kr.KeyId)
	}
	return s
}

// applyOp applies an operator transition label to a copy of s (nil if not enabled).
func (w *world) applyOp(s *state, label string) (*state, string, string) {
	f := strings.Split(label, ":")
	ns := s.clone()
	switch f[0] {
	case "auth":
		k, e, n := f[1], f[2], f[3]
		pre := w.abstract(s)
		req := harness.SignedRequest(harness.Info(w.key(k), w.enc(e), w.nonces[n]), w.key(k))
		before := ns.st.NodeInfo(w.key(k).KeyId)
		_, err := registration.AuthorizeNode(harness.Ctx, ns.st, req)
		_, had := pre.rec[k]
		switch {
		case had && err == nil:
			return ns, "authorize-over-existing", fmt.Sprintf("AuthorizeNode succeeded for %s which already has a record (state {%s})", k, w.keyOf(s))
		case had && !proto.Equal(before, ns.st.NodeInfo(w.key(k).KeyId)):
			return ns, "authorize-over-existing:record-changed", fmt.Sprintf("refused AuthorizeNode altered the existing record of %s", k)
		case len(w.nonces[n]) != nodeenrollment.NonceSize && err == nil:
			return ns, "authorize-with-token-nonce", "AuthorizeNode accepted a token-sized nonce"
		}
	case "tok":
		if s.issued[f[1]] {
			return nil, "", ""
		}
		t, err := harness.CreateToken(ns.st, f[1], w.seed)
		if err != nil {
			panic(err)
		}
		if t.String != w.tok[f[1]].String {
			panic("token creation is not deterministic")
		}
		ns.issued[f[1]] = true
	case "rm":
		id := w.key(f[1]).KeyId
		if _, ok := s.st.Raw("nodeinfo", id); !ok {
			return nil, "", ""
		}
		if err := ns.st.Remove(harness.Ctx, &types.NodeInformation{Id: id}); err != nil {
			panic(err)
		}
	case "reinit-roots":
		// the operator replaces both roots: records authorized before keep
		// certificates under roots the server no longer has
		if s.reinit {
			return nil, "", ""
		}
		if _, err := rotation.RotateRootCertificates(harness.Ctx, ns.st, nodeenrollment.WithReinitializeRoots(true)); err != nil {
			panic(err)
		}
		ns.reinit = true
	case "age":
		// only meaningful while something can expire
		v := w.abstract(s)
		if v.tok["T1"] != "outstanding" && v.tok["T2"] != "outstanding" {
			return nil, "", ""
		}
		ns.epoch++
	default:
		panic(label)
	}
	return ns, "", ""
}

type replayData struct {
	HasR bool     `json:"has_r"`
	Path []string `json:"path"`
	Tier string   `json:"tier"`
	Seed int64    `json:"seed"`
}

func parseFetch(label string) fetch {
	f := strings.Split(label, ":")
	var v int
	fmt.Sscanf(f[4], "v%d", &v)
	return fetch{K: f[1], E: f[2], N: f[3], V: v, W: f[5] == "wtrue", S: len(f) > 6}
}

func (w *world) explore(c *engine.Ctx, r *engine.Report, hasR bool) {
	m := menusFor(c)
	var opLabels []string
	for _, k := range m.opKeys {
		for _, e := range m.encs {
			for _, n := range m.opNonces {
				opLabels = append(opLabels, "auth:"+k+":"+e+":"+n)
			}
		}
	}
	opLabels = append(opLabels, "auth:K1:E1:T1") // token-sized nonce through the operator path
	for _, t := range m.tokens {
		opLabels = append(opLabels, "tok:"+t)
	}
	for _, k := range m.fetchKeys {
		opLabels = append(opLabels, "rm:"+k)
	}
	opLabels = append(opLabels, "rm:KR") // the operator removes the re-wrapping node
	opLabels = append(opLabels, "age", "reinit-roots")
	var fetches []fetch
	for _, k := range m.fetchKeys {
		for _, e := range append(append([]string{}, m.encs...), "E1t") {
			for _, n := range m.fetchNonces {
				for _, v := range m.variants {
					for _, wOn := range []bool{false, true} {
						if v >= 5 && v <= 7 && wOn {
							continue // the wrapper is not consulted on the re-wrapped path
						}
						fetches = append(fetches, fetch{K: k, E: e, N: n, V: v, W: wOn})
						if v == 4 && !wOn {
							fetches = append(fetches, fetch{K: k, E: e, N: n, V: v, S: true})
						}
					}
				}
			}
		}
	}
	r.Extra["fetch_shapes_per_state"] = float64(len(fetches))
	r.Extra["operator_transitions_per_state"] = float64(len(opLabels))
	b := &engine.BFS[*state]{
		Init:        []*state{w.initial(hasR)},
		Key:         w.keyOf,
		MaxDepth:    m.depth,
		Ctx:         c,
		Report:      r,
		Parallel:    8,
		Group:       func(s *state) int { return s.epoch },
		BeforeGroup: func(g int) { vclock.Freeze(epochTime(g)) },
		Expand: func(s *state, path []string, emit func(string, *state)) {
			for _, l := range opLabels {
				ns, sig, msg := w.applyOp(s, l)
				if ns == nil {
					continue
				}
				r.Eval(1)
				if sig != "" {
					r.Violate(sig, msg, replayData{hasR, append(append([]string{}, path...), l), c.Tier, w.seed})
					continue
				}
				emit(l, ns)
			}
			preKey := w.keyOf(s)
			for _, f := range fetches {
				ns, sig, msg, branch := w.doFetch(s, f)
				r.Eval(1)
				if sig != "" {
					r.Violate(sig, msg, replayData{hasR, append(append([]string{}, path...), f.label()), c.Tier, w.seed})
					continue
				}
				r.Branch(branch)
				r.Outcome(branch + ":" + classOf(f, w.abstract(s)))
				if w.keyOf(ns) != preKey {
					emit(f.label(), ns)
				} else {
					r.Outcome("fetch-left-state-unchanged")
				}
				if branch != "rejected" && len(path) == 2 && f.E == "E1" {
					r.Sample(map[string]any{"history": path, "fetch": f.label(), "variant": variantNames[f.V], "pre_state": preKey, "outcome": branch})
				}
			}
		},
	}
	fix := b.Run()
	r.Extra[fmt.Sprintf("fixpoint_hasR_%v", hasR)] = fix
}

func run(c *engine.Ctx, r *engine.Report) {
	r.Need("creds-by-a", "creds-by-b", "creds-by-c", "empty-response", "rejected")
	w := newWorld(c.Seed)
	hasR := c.Shard%2 == 0
	if c.Shards == 1 {
		w.explore(c, r, true)
		hasR = false
	}
	w.explore(c, r, hasR)
	// distinct non-trivial = distinct (outcome, request class) pairs other than plain rejections of unknown keys
	n := 0
	var ks []string
	for k := range r.Outcomes {
		ks = append(ks, k)
	}
	sort.Strings(ks)
	for _, k := range ks {
		if !strings.HasPrefix(k, "fetch-left") {
			n++
		}
	}
	r.Nontrivial(int64(n))
	vclock.Reset()
}

func replay(c *engine.Ctx, raw json.RawMessage) (string, bool) {
	var rd replayData
	if err := json.Unmarshal(raw, &rd); err != nil {
		return err.Error(), false
	}
	w := newWorld(rd.Seed)
	s := w.initial(rd.HasR)
	var out strings.Builder
	for i, l := range rd.Path {
		vclock.Freeze(epochTime(s.epoch))
		fmt.Fprintf(&out, "step %d %s on {%s}\n", i, l, w.keyOf(s))
		if strings.HasPrefix(l, "fetch:") {
			ns, sig, msg, branch := w.doFetch(s, parseFetch(l))
			if sig != "" {
				fmt.Fprintf(&out, "  VIOLATION %s: %s\n", sig, msg)
				return out.String(), true
			}
			fmt.Fprintf(&out, "  -> %s\n", branch)
			s = ns
			continue
		}
		ns, sig, msg := w.applyOp(s, l)
		if sig != "" {
			fmt.Fprintf(&out, "  VIOLATION %s: %s\n", sig, msg)
			return out.String(), true
		}
		if ns != nil {
			s = ns
		}
	}
	vclock.Reset()
	return out.String() + "no violation", false
}

func init() {
	engine.Register(&engine.CheckDef{
		ID:    "C01",
		Level: "model_checking",
		Rule: "BFS over operator actions {authorize(K,E,N), create token, remove node (including the re-wrapping node), age past the token lifetime, replace the server's roots} and every well-signed fetch request from {K1,K2,K3}x{E1,E2,E1 with the ignored top bit of its last byte flipped}x{N1,N2,T1,T2,forged token,garbage}x{11 wrapped / re-wrapped / self-supplied-clear-info variants}x{registration wrapper configured or not} (quick: reduced menus, depth 3; thorough: full menus, depth 4 - the full-menu fixpoint has > 70000 states x 576 fetch shapes and does not finish in the thorough budget), from two initial states (re-wrapping node R registered or not); state key = per key (nonce id, encryption key id) of its record, per token status, all record ids; " +
			"states/transitions are counted by the search; distinct_nontrivial = distinct (oracle branch, request class) pairs observed",
		Assumptions: []string{"a 'forged' request is one assembled from other pool members; signature forgery is outside the model", "the canonical key drops the server encryption key, certificate bundles and state of a record: no transition or oracle of this check reads them"},
		Shards:      func(c *engine.Ctx) int { return 2 },
		Run:         run,
		Replay:      replay,
	})
}
