// Package c07: a node connects only to a holder of a trusted root, and always
// to its own server (E4: rogue server constructions and honest configurations
// with the real Dial; E1: authorize / dial / advance / rotate histories in
// virtual time).
package c07

import (
	"crypto/ed25519"
	"crypto/x509"
	"crypto/x509/pkix"
	"encoding/base64"
	"encoding/json"
	"errors"
	"fmt"
	"math/big"
	"strings"
	"time"

	"github.com/hashicorp/nodeenrollment"
	"github.com/hashicorp/nodeenrollment/protocol"
	"github.com/hashicorp/nodeenrollment/registration"
	"github.com/hashicorp/nodeenrollment/rotation"
	nodetls "github.com/hashicorp/nodeenrollment/tls"
	"github.com/hashicorp/nodeenrollment/types"
	vclock "github.com/hashicorp/nodeenrollment/zz_verif/vclock"
	"verif/engine"
	"verif/harness"
)

type world struct {
	nodeOpt []nodeenrollment.Option // node-side options in histories (storage wrapper on/off)
	seed    int64
	st, fs  *harness.MemStore
	n1, n2  *harness.Enrolled
}

// rogue and honest dials happen 8 days after enrollment, when both of the
// node's roots are valid.
var dialTime = harness.T0.AddDate(0, 0, 8)

func newWorld(seed int64) *world {
	vclock.Freeze(harness.T0)
	w := &world{seed: seed, st: harness.NewMemStore(), fs: harness.NewMemStore()}
	harness.InitRoots(w.st)
	harness.InitRoots(w.fs)
	var err error
	if w.n1, err = harness.Enroll(w.st, harness.NewCertKey("K1", seed), harness.NewEncKey("E1", seed), harness.Bytes("n1", 32), nil, nil); err != nil {
		panic(err)
	}
	if w.n2, err = harness.Enroll(w.st, harness.NewCertKey("K2", seed), harness.NewEncKey("E2", seed), harness.Bytes("n2", 32), nil, nil); err != nil {
		panic(err)
	}
	vclock.Freeze(dialTime)
	return w
}

var rogueKinds = []string{"foreign-roots", "stale-certificate-other-nonce", "minted-without-nonce", "other-nodes-client-certificate", "self-signed-right-nonce", "trusted-root-wrong-eku", "trusted-root-expired-leaf", "preference-ignored", "preference-honoured"}

// mayConnect says whether the property allows the handshake to complete.
func mayConnect(kind string) bool {
	return kind == "preference-ignored" || kind == "preference-honoured"
}

func pick(bundles []*types.CertificateBundle, pref string, invert bool) *types.CertificateBundle {
	for _, b := range bundles {
		if (harness.CaKeyId(b.CaCertificateDer) == pref) != invert {
			return b
		}
	}
	return bundles[0]
}

func (w *world) mint(kind string) func(req *types.GenerateServerCertificatesRequest, pref string) (*harness.RogueCert, error) {
	nodePkix := w.n1.K.Pkix
	gen := func(store *harness.MemStore, nonce []byte) (*types.GenerateServerCertificatesResponse, ed25519.PrivateKey) {
		resp, err := nodetls.GenerateServerCertificates(harness.Ctx, store, &types.GenerateServerCertificatesRequest{CertificatePublicKeyPkix: nodePkix, Nonce: nonce, SkipVerification: true})
		if err != nil {
			panic(err)
		}
		k, _ := x509.ParsePKCS8PrivateKey(resp.CertificatePrivateKeyPkcs8)
		return resp, k.(ed25519.PrivateKey)
	}
	return func(req *types.GenerateServerCertificatesRequest, pref string) (rc *harness.RogueCert, err error) {
		if len(req.CertificatePublicKeyPkix) > 0 {
			nodePkix = req.CertificatePublicKeyPkix // the dialling node's key (n1 in the plain rogue cases)
		}
		defer func() {
			// like the real server, announce the real roots as acceptable client CAs
			if rc != nil {
				for _, b := range w.n1.Creds.CertificateBundles {
					rc.ClientCAs = append(rc.ClientCAs, b.CaCertificateDer)
				}
			}
		}()
		chain := func(b *types.CertificateBundle) [][]byte { return [][]byte{b.CertificateDer, b.CaCertificateDer} }
		switch kind {
		case "foreign-roots":
			resp, k := gen(w.fs, req.Nonce)
			return &harness.RogueCert{Chain: chain(resp.CertificateBundles[0]), Key: k}, nil
		case "stale-certificate-other-nonce":
			resp, k := gen(w.st, harness.Bytes("an-earlier-connections-nonce", 32))
			return &harness.RogueCert{Chain: chain(pick(resp.CertificateBundles, pref, false)), Key: k}, nil
		case "minted-without-nonce":
			resp, k := gen(w.st, nil)
			return &harness.RogueCert{Chain: chain(pick(resp.CertificateBundles, pref, false)), Key: k}, nil
		case "other-nodes-client-certificate":
			return &harness.RogueCert{Chain: chain(pick(w.n2.Creds.CertificateBundles, pref, false)), Key: w.n2.K.Priv}, nil
		case "self-signed-right-nonce":
			pub, priv, _ := ed25519.GenerateKey(harness.DetRand("rogue-self"))
			tmpl := &x509.Certificate{SerialNumber: big.NewInt(5), Subject: pkix.Name{CommonName: "rogue"}, DNSNames: []string{base64.RawStdEncoding.EncodeToString(req.Nonce), nodeenrollment.CommonDnsName},
				NotBefore: vclock.Peek().Add(-time.Hour), NotAfter: vclock.Peek().Add(time.Hour), ExtKeyUsage: []x509.ExtKeyUsage{x509.ExtKeyUsageServerAuth},
				KeyUsage: x509.KeyUsageDigitalSignature | x509.KeyUsageCertSign, IsCA: true, BasicConstraintsValid: true}
			der, err := x509.CreateCertificate(harness.DetRand("rogue-self"), tmpl, tmpl, pub, priv)
			if err != nil {
				panic(err)
			}
			return &harness.RogueCert{Chain: [][]byte{der}, Key: priv}, nil
		case "trusted-root-wrong-eku", "trusted-root-expired-leaf":
			// only possible with the root's key: the harness has it, a real rogue would not
			roots, err := types.LoadRootCertificates(harness.Ctx, w.st.Clone())
			if err != nil {
				panic(err)
			}
			root := roots.Current
			if harness.CaKeyId(roots.Next.CertificateDer) == pref {
				root = roots.Next
			}
			ca, signer, err := root.SigningParams(harness.Ctx)
			if err != nil {
				panic(err)
			}
			pub, priv, _ := ed25519.GenerateKey(harness.DetRand("rogue-leaf"))
			tmpl := &x509.Certificate{SerialNumber: big.NewInt(6), Subject: pkix.Name{CommonName: "rogue"}, DNSNames: []string{base64.RawStdEncoding.EncodeToString(req.Nonce)},
				NotBefore: ca.NotBefore, NotAfter: ca.NotAfter, ExtKeyUsage: []x509.ExtKeyUsage{x509.ExtKeyUsageServerAuth}, KeyUsage: x509.KeyUsageDigitalSignature, AuthorityKeyId: ca.SubjectKeyId}
			if kind == "trusted-root-wrong-eku" {
				tmpl.ExtKeyUsage = []x509.ExtKeyUsage{x509.ExtKeyUsageCodeSigning}
			} else {
				tmpl.NotBefore, tmpl.NotAfter = vclock.Peek().Add(-48*time.Hour), vclock.Peek().Add(-24*time.Hour)
			}
			der, err := x509.CreateCertificate(harness.DetRand("rogue-leaf"), tmpl, ca, pub, signer)
			if err != nil {
				panic(err)
			}
			return &harness.RogueCert{Chain: [][]byte{der, ca.Raw}, Key: priv}, nil
		case "preference-ignored":
			resp, k := gen(w.st, req.Nonce)
			return &harness.RogueCert{Chain: chain(pick(resp.CertificateBundles, pref, true)), Key: k}, nil
		case "preference-honoured":
			resp, k := gen(w.st, req.Nonce)
			return &harness.RogueCert{Chain: chain(pick(resp.CertificateBundles, pref, false)), Key: k}, nil
		}
		return nil, fmt.Errorf("unknown rogue kind")
	}
}

type kase struct {
	Part    string `json:"part"` // rogue | honest | history
	Kind    string `json:"kind,omitempty"`
	Wrapper bool   `json:"storage_wrapper,omitempty"`
	Extras  bool   `json:"extra_alpn,omitempty"`
	State   bool   `json:"client_state,omitempty"`
	Unix    bool   `json:"unix,omitempty"`
	// ExactSkews: the listener's option list (the operator's, shared with root
	// rotation) sets both clock skews to zero, and the clock moves during the dial
	ExactSkews bool     `json:"exact_skews,omitempty"`
	Path       []string `json:"path,omitempty"`
	Seed       int64    `json:"seed"`
}

func (w *world) oneRogue(kind string, r *engine.Report) (string, string) {
	if sig, msg := w.oneRogueOpts(kind, nil, r); sig != "" {
		return sig, msg
	}
	// the same dial with an option list that contains a nil entry (an option
	// the application builds conditionally and left unset): nil entries are
	// skipped, the options after them still apply
	sig, msg := w.oneRogueOpts(kind, []nodeenrollment.Option{nil, nodeenrollment.WithNotBeforeClockSkew(-5 * time.Minute)}, r)
	if sig != "" {
		return sig + ":nil-option-in-list", msg + " [dial options: a nil entry, then a clock-skew option]"
	}
	return "", ""
}

func (w *world) oneRogueOpts(kind string, dopt []nodeenrollment.Option, r *engine.Report) (string, string) {
	vclock.Freeze(dialTime)
	rg, err := harness.NewRogue(w.mint(kind))
	if err != nil {
		r.InfraError(err.Error())
		return "", ""
	}
	conn, derr := protocol.Dial(harness.Ctx, w.n1.Store.Clone(), rg.Addr, dopt...)
	connected := derr == nil && conn != nil
	peerInfo := ""
	if connected {
		conn.Close()
	}
	rg.Close()
	switch {
	case connected && !mayConnect(kind):
		return "connected-to-rogue:" + kind, fmt.Sprintf("Dial completed a handshake with a rogue server of kind %q (%s)%s", kind, rg, peerInfo)
	case !connected && mayConnect(kind):
		return "refused-trusted-server:" + kind, fmt.Sprintf("Dial refused a server that presents a chain to a trusted root with this connection's nonce (%s): %v", kind, derr)
	}
	if len(rg.Nonces) == 0 {
		r.InfraError("the rogue server saw no connection")
		return "", ""
	}
	// every connection of one dial carries the same fresh nonce, and two dials differ
	if connected {
		r.Branch("rogue:accepted-trusted-root")
	} else {
		r.Branch("rogue:rejected")
	}
	return "", ""
}

// oneRelay: an operator-authorized but not yet enrolled node dials through a
// network position that lets its fetch handshake reach the real server and
// answers the authentication handshake of the same Dial with a rogue server.
func (w *world) oneRelay(kind string, r *engine.Report) (string, string) {
	vclock.Freeze(dialTime)
	st := w.st.Clone()
	node := harness.NewMemStore()
	creds, err := types.NewNodeCredentials(harness.Ctx, node)
	if err != nil {
		panic(err)
	}
	req, err := creds.CreateFetchNodeCredentialsRequest(harness.Ctx)
	if err != nil {
		panic(err)
	}
	if _, err := registration.AuthorizeNode(harness.Ctx, st, req); err != nil {
		panic(err)
	}
	rg, err := harness.NewRogue(w.mint(kind))
	if err != nil {
		r.InfraError(err.Error())
		return "", ""
	}
	defer rg.Close()
	connected, relayed := false, 0
	var derr error
	rs, serr := harness.Serve(harness.ServerConfig{Storage: st}, func(addr string) {
		rl, err := harness.NewRelay(addr, rg.Addr)
		if err != nil {
			derr = err
			return
		}
		conn, e := protocol.Dial(harness.Ctx, node, rl.Addr)
		derr = e
		if conn != nil {
			connected = e == nil
			conn.Close()
		}
		relayed = rl.Connections()
		rl.Close()
	})
	defer harness.CloseAll(rs)
	if serr != nil {
		r.InfraError(serr.Error())
		return "", ""
	}
	stored, lerr := types.LoadNodeCredentials(harness.Ctx, node, nodeenrollment.CurrentId)
	if lerr != nil || len(stored.CertificateBundles) != 2 {
		return "relay:fetch-did-not-complete", fmt.Sprintf("the relayed fetch handshake did not leave the node with its credentials (%v, dial error %v)", lerr, derr)
	}
	switch {
	case connected && !mayConnect(kind):
		return "connected-to-rogue:after-own-fetch:" + kind, fmt.Sprintf("in the Dial that had just fetched the node's credentials from the real server, the authentication handshake was completed with a rogue server of kind %q (%s; %d connections relayed)", kind, rg, relayed)
	case !connected && mayConnect(kind):
		return "refused-trusted-server:after-own-fetch:" + kind, fmt.Sprintf("after its own fetch the Dial refused a server that presents a chain to a trusted root with this connection's nonce (%s): %v", kind, derr)
	}
	if relayed < 2 {
		r.InfraError(fmt.Sprintf("the relay saw %d connections, expected the fetch and at least one authentication handshake", relayed))
		return "", ""
	}
	r.Branch("relay:fetched-then-" + map[bool]string{true: "accepted-trusted-root", false: "rejected"}[connected])
	return "", ""
}

func (w *world) oneHonest(k kase, r *engine.Report) (string, string) {
	vclock.Freeze(dialTime)
	st := harness.NewMemStore()
	var sopt, nopt []nodeenrollment.Option
	if k.Wrapper {
		sopt = append(sopt, nodeenrollment.WithStorageWrapper(harness.Wrapper("server", w.seed)))
		nopt = append(nopt, nodeenrollment.WithStorageWrapper(harness.Wrapper("node", w.seed)))
	}
	harness.InitRoots(st, sopt...)
	n, err := harness.Enroll(st, harness.NewCertKey("KH", w.seed), harness.NewEncKey("EH", w.seed), harness.Bytes("nh", 32), sopt, nopt)
	if err != nil {
		return "honest-enroll", err.Error()
	}
	dopt := append([]nodeenrollment.Option{}, nopt...)
	if k.Extras {
		dopt = append(dopt, nodeenrollment.WithExtraAlpnProtos([]string{"one", "two"}))
	}
	if k.State {
		dopt = append(dopt, nodeenrollment.WithState(harness.Struct(map[string]any{"s": 1.0, "site": "dc-1", "tier": "gold", "tags": []any{"a", "b"}, "owner": "alice", "zone": "z9", "rack": 12.0, "slot": 3.0, "role": "worker", "gen": 7.0, "pool": "p2", "env": "prod"})))
	}
	lopt := sopt
	if k.ExactSkews {
		lopt = append(append([]nodeenrollment.Option{}, sopt...), nodeenrollment.WithNotBeforeClockSkew(0), nodeenrollment.WithNotAfterClockSkew(0))
		vclock.Tick(dialTime) // every clock read is a nanosecond later than the one before
		defer vclock.Freeze(dialTime)
	}
	var derr error
	rs, serr := harness.Serve(harness.ServerConfig{Storage: st, Options: lopt, Unix: k.Unix}, func(addr string) {
		conn, e := protocol.Dial(harness.Ctx, n.Store, addr, dopt...)
		derr = e
		if conn != nil {
			conn.Close()
		}
	})
	defer harness.CloseAll(rs)
	if serr != nil {
		r.InfraError(serr.Error())
		return "", ""
	}
	ok := false
	for _, a := range rs {
		ok = ok || a.Authenticated
	}
	if derr != nil || !ok {
		return "honest-refused", fmt.Sprintf("a registered node with valid credentials could not connect to its own server (storage wrapper %v, extra ALPN %v, state %v, unix %v, listener with zero skews under a moving clock %v): %v; accepts %v", k.Wrapper, k.Extras, k.State, k.Unix, k.ExactSkews, derr, rs)
	}
	r.Branch("honest:connected")
	if k.Unix {
		r.Branch("honest:unix")
	}
	return "", ""
}

// oneConfigs: with both chains valid the node must build one client
// configuration per chain, each naming its own chain as certificate
// preference and offering the same request and extra protocols.
func (w *world) oneConfigs(withState bool, nExtras int, r *engine.Report) (string, string) {
	vclock.Freeze(dialTime)
	var o []nodeenrollment.Option
	if withState {
		o = append(o, nodeenrollment.WithState(harness.Struct(map[string]any{"s": 1.0})))
	}
	var extras []string
	for i := 0; i < nExtras; i++ {
		extras = append(extras, fmt.Sprintf("extra-%d", i))
	}
	if extras != nil {
		o = append(o, nodeenrollment.WithExtraAlpnProtos(extras))
	}
	confs, err := nodetls.ClientConfigs(harness.Ctx, w.n1.Creds, o...)
	desc := fmt.Sprintf("ClientConfigs(client state=%v, %d extra protocols)", withState, nExtras)
	if err != nil {
		return "client-configs-error", desc + ": " + err.Error()
	}
	want := map[string]bool{}
	for _, b := range w.n1.Creds.CertificateBundles {
		want[harness.CaKeyId(b.CaCertificateDer)] = true
	}
	got := map[string]bool{}
	for i, cf := range confs {
		var prefs, rest []string
		for _, p := range cf.NextProtos {
			switch {
			case strings.HasPrefix(p, nodeenrollment.CertificatePreferenceV1Prefix):
				prefs = append(prefs, strings.TrimPrefix(p, nodeenrollment.CertificatePreferenceV1Prefix))
			case strings.HasPrefix(p, nodeenrollment.AuthenticateNodeNextProtoV1Prefix):
			default:
				rest = append(rest, p)
			}
		}
		if len(prefs) != 1 {
			return "client-configs:preference-count", fmt.Sprintf("%s: configuration %d carries %d certificate preferences", desc, i, len(prefs))
		}
		got[prefs[0]] = true
		if strings.Join(rest, ",") != strings.Join(extras, ",") {
			return "client-configs:extras", fmt.Sprintf("%s: configuration %d offers %v instead of the extra protocols %v", desc, i, rest, extras)
		}
	}
	if len(confs) != len(want) || len(got) != len(want) {
		return "client-configs:not-one-per-chain", fmt.Sprintf("%s: %d configurations naming %d distinct chains, but the node holds %d valid chains - a server that still recognizes only the other chain becomes unreachable", desc, len(confs), len(got), len(want))
	}
	for k := range got {
		if !want[k] {
			return "client-configs:unknown-preference", desc + ": a configuration names a chain the node does not hold"
		}
	}
	r.Branch("client-configs:one-per-chain")
	return "", ""
}

// ---- histories

const life = 8 * time.Hour

type hstate struct {
	st, nd *harness.MemStore
	now    time.Time
}

func ropts() []nodeenrollment.Option {
	return []nodeenrollment.Option{nodeenrollment.WithCertificateLifetime(life), nodeenrollment.WithNotBeforeClockSkew(0), nodeenrollment.WithNotAfterClockSkew(0)}
}

func (w *world) hKey(h hstate) string {
	var p []string
	if roots, err := types.LoadRootCertificates(harness.Ctx, h.st.Clone()); err == nil {
		for _, r := range []*types.RootCertificate{roots.Current, roots.Next} {
			p = append(p, fmt.Sprintf("root[%s](%v..%v)", harness.CaKeyId(r.CertificateDer)[:6], r.NotBefore.AsTime().Sub(h.now), r.NotAfter.AsTime().Sub(h.now)))
		}
	}
	c, err := types.LoadNodeCredentials(harness.Ctx, h.nd.Clone(), nodeenrollment.CurrentId, w.nodeOpt...)
	if err == nil {
		for _, b := range c.CertificateBundles {
			p = append(p, fmt.Sprintf("chain[%s](%v..%v)", harness.CaKeyId(b.CaCertificateDer)[:6], b.CertificateNotBefore.AsTime().Sub(h.now), b.CertificateNotAfter.AsTime().Sub(h.now)))
		}
		reg := h.st.NodeInfo(harness.KeyIdOf(c.CertificatePublicKeyPkix)) != nil
		p = append(p, fmt.Sprintf("registered=%v", reg))
	}
	return strings.Join(p, " ")
}

// expectConnect: the node holds a chain valid now whose root the server still
// holds (current or next) and which is valid now.
func (w *world) expectConnect(h hstate) bool {
	roots, err := types.LoadRootCertificates(harness.Ctx, h.st.Clone())
	c, cerr := types.LoadNodeCredentials(harness.Ctx, h.nd.Clone(), nodeenrollment.CurrentId, w.nodeOpt...)
	if err != nil || cerr != nil {
		return false
	}
	if h.st.NodeInfo(harness.KeyIdOf(c.CertificatePublicKeyPkix)) == nil {
		return false
	}
	in := func(t time.Time, nb, na time.Time) bool { return t.After(nb) && t.Before(na) }
	for _, b := range c.CertificateBundles {
		for _, r := range []*types.RootCertificate{roots.Current, roots.Next} {
			if string(r.CertificateDer) == string(b.CaCertificateDer) && in(h.now, r.NotBefore.AsTime(), r.NotAfter.AsTime()) && in(h.now, b.CertificateNotBefore.AsTime(), b.CertificateNotAfter.AsTime()) {
				return true
			}
		}
	}
	return false
}

// recordUsable: the node record created at authorization carries a chain that
// is valid now under a root the server still holds and that is valid now.
func (w *world) recordUsable(h hstate, keyId string) bool {
	n := h.st.NodeInfo(keyId)
	roots, err := types.LoadRootCertificates(harness.Ctx, h.st.Clone())
	if n == nil || err != nil {
		return false
	}
	in := func(t time.Time, nb, na time.Time) bool { return t.After(nb) && t.Before(na) }
	for _, b := range n.CertificateBundles {
		for _, rt := range []*types.RootCertificate{roots.Current, roots.Next} {
			if string(rt.CertificateDer) == string(b.CaCertificateDer) && in(h.now, rt.NotBefore.AsTime(), rt.NotAfter.AsTime()) && in(h.now, b.CertificateNotBefore.AsTime(), b.CertificateNotAfter.AsTime()) {
				return true
			}
		}
	}
	return false
}

func (w *world) applyHist(h hstate, label string, r *engine.Report) (hstate, string, string) {
	vclock.Freeze(h.now)
	nh := hstate{st: h.st.Clone(), nd: h.nd.Clone(), now: h.now}
	c, err := types.LoadNodeCredentials(harness.Ctx, nh.nd.Clone(), nodeenrollment.CurrentId, w.nodeOpt...)
	if err != nil {
		panic(err)
	}
	keyId := harness.KeyIdOf(c.CertificatePublicKeyPkix)
	switch label {
	case "advance":
		nh.now = h.now.Add(life / 4)
	case "rotate":
		if _, err := rotation.RotateRootCertificates(harness.Ctx, nh.st, ropts()...); err != nil {
			return h, "rotate-failed", err.Error()
		}
	case "authorize":
		if nh.st.NodeInfo(keyId) != nil || len(c.RegistrationNonce) == 0 {
			return h, "", "skip"
		}
		req, err := c.CreateFetchNodeCredentialsRequest(harness.Ctx)
		if err != nil {
			panic(err)
		}
		if _, err := registration.AuthorizeNode(harness.Ctx, nh.st, req); err != nil {
			return h, "authorize-failed", err.Error()
		}
	case "dial":
		registered := h.st.NodeInfo(keyId) != nil
		hadCerts := len(c.CertificateBundles) > 0
		var derr error
		var conn interface{ Close() error }
		rs, serr := harness.Serve(harness.ServerConfig{Storage: nh.st, Unix: true}, func(addr string) {
			cn, e := protocol.Dial(harness.Ctx, nh.nd, addr, w.nodeOpt...)
			derr = e
			if cn != nil {
				conn = cn
				cn.Close()
			}
		})
		defer harness.CloseAll(rs)
		if serr != nil {
			r.InfraError(serr.Error())
			return h, "", "skip"
		}
		after, _ := types.LoadNodeCredentials(harness.Ctx, nh.nd.Clone(), nodeenrollment.CurrentId, w.nodeOpt...)
		desc := fmt.Sprintf("dial at now=T0+%v in state {%s}", h.now.Sub(harness.T0), w.hKey(h))
		// a server whose operator let both roots expire cannot complete any
		// handshake, not even the fetch: such states are outside the clauses
		serverUsable := false
		if roots, err := types.LoadRootCertificates(harness.Ctx, h.st.Clone()); err == nil {
			for _, rt := range []*types.RootCertificate{roots.Current, roots.Next} {
				if h.now.After(rt.NotBefore.AsTime()) && h.now.Before(rt.NotAfter.AsTime()) {
					serverUsable = true
				}
			}
		}
		switch {
		case !hadCerts && !serverUsable:
			r.Outcome("history:server-without-valid-root")
		case !registered && !hadCerts:
			if !errors.Is(derr, nodeenrollment.ErrNotAuthorized) {
				return h, "pending:wrong-error", fmt.Sprintf("%s: an unregistered node's dial returned %v instead of the not-authorized error", desc, derr)
			}
			if after == nil || len(after.CertificateBundles) != 0 {
				return h, "pending:stored-certificates", desc + ": an unregistered node's dial stored certificates"
			}
			r.Branch("history:not-authorized")
		case registered && !hadCerts && !w.recordUsable(h, keyId):
			// the certificates were minted at authorization time; if the operator's
			// authorization is so old that the server has since dropped (or let
			// expire) both roots they were issued under, the first dial cannot succeed
			r.Outcome("history:authorization-outlived")
		case registered && !hadCerts:
			// first dial after authorization: fetches and connects with the same stored key
			if derr != nil || conn == nil {
				return h, "authorized-but-refused", fmt.Sprintf("%s: the operator authorized the node but its dial failed: %v", desc, derr)
			}
			if after == nil || len(after.CertificateBundles) != 2 || string(after.CertificatePublicKeyPkix) != string(c.CertificatePublicKeyPkix) {
				return h, "authorized:key-changed", desc + ": after authorization the node did not end up with certificates for the same stored key"
			}
			r.Branch("history:fetched-and-connected")
		default:
			want := w.expectConnect(h)
			got := derr == nil && conn != nil
			if want && !got {
				return h, "valid-credentials-refused", fmt.Sprintf("%s: the node holds a valid chain under a root the server still holds, but the dial failed: %v", desc, derr)
			}
			if got {
				r.Branch("history:connected")
			} else {
				r.Branch("history:credentials-outlived")
			}
		}
	}
	return nh, "", ""
}

func (w *world) initialHist() hstate {
	vclock.Freeze(harness.T0)
	h := hstate{st: harness.NewMemStore(), nd: harness.NewMemStore(), now: harness.T0}
	if _, err := rotation.RotateRootCertificates(harness.Ctx, h.st, ropts()...); err != nil {
		panic(err)
	}
	if err := harness.NodeCreds(harness.NewCertKey("KH", w.seed), harness.NewEncKey("EH", w.seed), harness.Bytes("nh", 32)).Store(harness.Ctx, h.nd, w.nodeOpt...); err != nil {
		panic(err)
	}
	return h
}

func (w *world) runHistories(c *engine.Ctx, r *engine.Report) {
	depth := 8
	if c.Thorough() {
		depth = 14
	}
	labels := []string{"authorize", "dial", "advance", "rotate"}
	b := &engine.BFS[hstate]{
		Init: []hstate{w.initialHist()}, Key: w.hKey, MaxDepth: depth, Ctx: c, Report: r,
		Expand: func(h hstate, path []string, emit func(string, hstate)) {
			for _, l := range labels {
				nh, sig, msg := w.applyHist(h, l, r)
				if msg == "skip" {
					continue
				}
				r.Eval(1)
				full := append(append([]string{}, path...), l)
				if sig != "" {
					r.Violate("history:"+sig, fmt.Sprintf("history %v: %s", full, msg), kase{Part: "history", Path: full, Seed: c.Seed})
					continue
				}
				if l == "dial" && len(path) == 3 {
					r.Sample(map[string]any{"history": full, "state": w.hKey(h)})
				}
				emit(l, nh)
			}
		},
	}
	b.Run()
	vclock.Reset()
}

func run(c *engine.Ctx, r *engine.Report) {
	r.Need("rogue:rejected", "rogue:accepted-trusted-root", "relay:fetched-then-rejected", "relay:fetched-then-accepted-trusted-root", "honest:connected", "honest:unix", "client-configs:one-per-chain", "history:with-node-storage-wrapper", "history:not-authorized", "history:fetched-and-connected", "history:connected")
	w := newWorld(c.Seed)
	i := 0
	for _, kind := range rogueKinds {
		i++
		if !c.Mine(i) {
			continue
		}
		r.Eval(1)
		if sig, msg := w.oneRogue(kind, r); sig != "" {
			r.Violate(sig, msg, kase{Part: "rogue", Kind: kind, Seed: c.Seed})
			continue
		}
		r.Nontrivial(1)
		r.Sample(map[string]any{"rogue": kind, "may_connect": mayConnect(kind)})
	}
	for _, kind := range rogueKinds {
		i++
		if !c.Mine(i) {
			continue
		}
		r.Eval(1)
		if sig, msg := w.oneRelay(kind, r); sig != "" {
			r.Violate(sig, msg, kase{Part: "relay", Kind: kind, Seed: c.Seed})
			continue
		}
		r.Nontrivial(1)
	}
	for m := 0; m < 32; m++ {
		i++
		if !c.Mine(i) {
			continue
		}
		k := kase{Part: "honest", Wrapper: m&1 != 0, Extras: m&2 != 0, State: m&4 != 0, Unix: m&8 != 0, ExactSkews: m&16 != 0, Seed: c.Seed}
		r.Eval(1)
		if sig, msg := w.oneHonest(k, r); sig != "" {
			r.Violate(sig, msg, k)
			continue
		}
		r.Nontrivial(1)
	}
	for _, st := range []bool{false, true} {
		for n := 0; n <= 6; n++ {
			i++
			if !c.Mine(i) {
				continue
			}
			r.Eval(1)
			if sig, msg := w.oneConfigs(st, n, r); sig != "" {
				r.Violate(sig, msg, kase{Part: "configs", State: st, Path: []string{fmt.Sprint(n)}, Seed: c.Seed})
				continue
			}
			r.Nontrivial(1)
		}
	}
	// histories: once with a plain node store, once with the node's credentials under a storage wrapper
	if c.Shard == c.Shards-1 {
		w.runHistories(c, r)
		r.Nontrivial(r.States)
	}
	if c.Shard == 0 || c.Shards == 1 {
		before := r.States
		w.nodeOpt = []nodeenrollment.Option{nodeenrollment.WithStorageWrapper(harness.Wrapper("node-history", w.seed))}
		w.runHistories(c, r)
		w.nodeOpt = nil
		r.Nontrivial(r.States - before)
		r.Branch("history:with-node-storage-wrapper")
	}
}

func replay(c *engine.Ctx, raw json.RawMessage) (string, bool) {
	var k kase
	if err := json.Unmarshal(raw, &k); err != nil {
		return err.Error(), false
	}
	w := newWorld(k.Seed)
	defer vclock.Reset()
	r := engine.NewReport()
	var sig, msg string
	switch k.Part {
	case "rogue":
		sig, msg = w.oneRogue(k.Kind, r)
	case "relay":
		sig, msg = w.oneRelay(k.Kind, r)
	case "honest":
		sig, msg = w.oneHonest(k, r)
	case "configs":
		var n int
		fmt.Sscan(k.Path[0], &n)
		sig, msg = w.oneConfigs(k.State, n, r)
	default:
		h := w.initialHist()
		for _, l := range k.Path {
			var m string
			h, sig, m = w.applyHist(h, l, r)
			if sig != "" {
				msg = m
				break
			}
		}
	}
	if sig == "" {
		return fmt.Sprintf("case %+v: holds", k), false
	}
	return sig + ": " + msg, true
}

func init() {
	engine.Register(&engine.CheckDef{
		ID:    "C07",
		Level: "exploration",
		Rule: "real protocol.Dial of a registered node against 9 hand-built server constructions (foreign roots; stale certificate minted for another nonce; minted without nonce; another node's client certificate; self-signed with the right nonce; chained to a trusted root with a wrong EKU / an expired leaf; right chain but certificate preference ignored / honoured), 32 honest configurations (storage wrapper x extra ALPN x client state x tcp/unix) against the real listener, the client configurations built for client state x 0..6 extra protocols (one per valid chain, each naming its own chain), and a BFS (quick depth 8, thorough 14) over {authorize, dial, advance 1/4 lifetime, rotate roots} in virtual time for a node that starts unregistered, with and without a storage wrapper on the node's side; " +
			"distinct_nontrivial = rogue kinds + honest configurations judged + canonical history states",
		Assumptions: []string{"the two constructions that need a trusted root's private key are built with the server's own key (a real rogue could not)", "in histories a dial must succeed whenever the node holds a chain strictly inside its validity under a root the server still holds and that is valid; ties are not judged"},
		Shards:      func(c *engine.Ctx) int { return 4 },
		Run:         run,
		Replay:      replay,
	})
}
