// Package c10: node credential rotation is authenticated by the existing
// shared key (E1: explicit-state search over rotation requests, replays and
// record removals against the real rotation.RotateNodeCredentials).
package c10

import (
	"encoding/json"
	"errors"
	"fmt"
	"sort"
	"strings"
	"time"

	"github.com/hashicorp/nodeenrollment"
	"github.com/hashicorp/nodeenrollment/registration"
	"github.com/hashicorp/nodeenrollment/rotation"
	"github.com/hashicorp/nodeenrollment/types"
	vclock "github.com/hashicorp/nodeenrollment/zz_verif/vclock"
	"google.golang.org/protobuf/proto"
	"verif/engine"
	"verif/harness"
)

var keyNames = []string{"K0", "K1", "K1b", "K2", "Kn1", "Kn2", "Kn3", "KU"}

type world struct {
	seed int64
	k    map[string]*harness.CertKey
	e    map[string]*harness.EncKey
}

func newWorld(seed int64) *world {
	w := &world{seed: seed, k: map[string]*harness.CertKey{}, e: map[string]*harness.EncKey{}}
	for _, n := range keyNames {
		w.k[n] = harness.NewCertKey(n, seed)
		w.e[n] = harness.NewEncKey("E-"+n, seed)
	}
	return w
}

type initCfg struct {
	Prev  bool   `json:"prev"`  // R1 carries a recorded previous key pair (that of K0)
	R1b   string `json:"r1b"`   // "", "before", "after": a second record under node id X
	Plain bool   `json:"plain"` // the server storage is not a NodeIdLoader
	// KeepOld keeps the superseded record R0 (whose key pair R1 recorded as its
	// previous one) in storage under the same node id, "before" or "after" R1
	// in lookup order: then two records can open a payload sealed with the old key.
	KeepOld string `json:"keep_old"`
}

type state struct {
	st       *harness.MemStore
	accepted []string // labels of honoured requests, replayable
	payloads map[string]*types.RotateNodeCredentialsRequest
	prevSrv  []byte // server public key of the recorded previous pair
}

func (s *state) clone() *state {
	c := &state{st: s.st.Clone(), accepted: append([]string{}, s.accepted...), payloads: map[string]*types.RotateNodeCredentialsRequest{}, prevSrv: s.prevSrv}
	for k, v := range s.payloads {
		c.payloads[k] = v
	}
	return c
}

func stateOf(name string) map[string]any { return map[string]any{"record": name} }

func (w *world) authorize(st *harness.MemStore, name, nodeId string) *types.NodeInformation {
	req := harness.SignedRequest(harness.Info(w.k[name], w.e[name], harness.Bytes("nonce-"+name, 32)), w.k[name])
	aopt := []nodeenrollment.Option{nodeenrollment.WithRandomReader(harness.DetRand("srv-" + name))}
	if name != "K2" {
		// K2's record carries no state: a rotation authenticated by it must yield a record without state too
		aopt = append(aopt, nodeenrollment.WithState(harness.Struct(stateOf(name))))
	}
	n, err := registration.AuthorizeNode(harness.Ctx, st, req, aopt...)
	if err != nil {
		panic(err)
	}
	if nodeId != "" {
		n.NodeId = nodeId
		st.PutNodeInfo(n)
	}
	return n
}

func (w *world) initial(ic initCfg) *state {
	vclock.Freeze(harness.T0)
	s := &state{st: harness.NewMemStore(), payloads: map[string]*types.RotateNodeCredentialsRequest{}}
	harness.InitRoots(s.st)
	r1 := w.authorize(s.st, "K1", "X")
	if ic.Prev {
		r0 := w.authorize(s.st, "K0", "")
		s.prevSrv = harness.ServerPub(r0)
		if err := r1.SetPreviousEncryptionKey(r0); err != nil {
			panic(err)
		}
		s.st.PutNodeInfo(r1)
		if ic.KeepOld == "" {
			s.st.DeleteRaw("nodeinfo", w.k["K0"].KeyId)
		} else {
			r0.NodeId = "X"
			s.st.PutNodeInfo(r0)
		}
	}
	switch ic.R1b {
	case "before":
		w.authorize(s.st, "K1b", "X")
		s.st.NodeOrder = []string{w.k["K1b"].KeyId, w.k["K1"].KeyId}
	case "after":
		w.authorize(s.st, "K1b", "X")
		s.st.NodeOrder = []string{w.k["K1"].KeyId, w.k["K1b"].KeyId}
	}
	if ic.Prev && ic.KeepOld != "" {
		rest := []string{}
		for _, id := range s.st.NodeOrder {
			rest = append(rest, id)
		}
		if len(rest) == 0 {
			rest = []string{w.k["K1"].KeyId}
		}
		if ic.KeepOld == "before" {
			s.st.NodeOrder = append([]string{w.k["K0"].KeyId}, rest...)
		} else {
			s.st.NodeOrder = append(rest, w.k["K0"].KeyId)
		}
	}
	w.authorize(s.st, "K2", "Y")
	return s
}

func (w *world) nameOfId(id string) string {
	for n, k := range w.k {
		if k.KeyId == id {
			return n
		}
	}
	return "?" + id
}

func (w *world) keyOf(s *state) string {
	var parts []string
	for _, id := range s.st.Ids("nodeinfo") {
		n := s.st.NodeInfo(id)
		prev := "-"
		if n.PreviousEncryptionKey != nil {
			prev = w.nameOfId(n.PreviousEncryptionKey.KeyId)
		}
		st := "-"
		if n.State != nil {
			st = n.State.Fields["record"].GetStringValue()
		}
		parts = append(parts, fmt.Sprintf("%s(node=%s,prev=%s,state=%s)", w.nameOfId(id), n.NodeId, prev, st))
	}
	sort.Strings(parts)
	// (an honoured request with re-sealed info attached leaves the same records
	// as the plain one - the records are part of the key - so the two are one
	// state; the payload replayed later is whichever was honoured first)
	return strings.Join(parts, " ") + " accepted=" + strings.ReplaceAll(strings.ReplaceAll(strings.ReplaceAll(strings.Join(s.accepted, ","), "+rewrapped-by-own-record", ""), "|caller-nil-option", ""), "+id-field-of-K2", "")
}

// source returns the node-side key material named by src, or nil.
func (w *world) source(s *state, src string) *types.NodeCredentials {
	f := strings.Split(src, ":")
	switch f[0] {
	case "cur":
		n := s.st.NodeInfo(w.k[f[1]].KeyId)
		if n == nil {
			return nil
		}
		c := harness.NodeCreds(w.k[f[1]], w.e[f[1]], nil)
		c.ServerEncryptionPublicKeyBytes, c.ServerEncryptionPublicKeyType = harness.ServerPub(n), types.KEYTYPE_X25519
		return c
	case "prev":
		if s.prevSrv == nil {
			return nil
		}
		c := harness.NodeCreds(w.k["K0"], w.e["K0"], nil)
		c.ServerEncryptionPublicKeyBytes, c.ServerEncryptionPublicKeyType = s.prevSrv, types.KEYTYPE_X25519
		return c
	case "unrelated":
		c := harness.NodeCreds(w.k["KU"], w.e["KU"], nil)
		c.ServerEncryptionPublicKeyBytes, c.ServerEncryptionPublicKeyType = harness.NewEncKey("unrelated-server", w.seed).Pub, types.KEYTYPE_X25519
		return c
	}
	panic(src)
}

func (w *world) freshKey(s *state) string {
	for _, n := range []string{"Kn1", "Kn2", "Kn3"} {
		if s.st.NodeInfo(w.k[n].KeyId) == nil {
			return n
		}
	}
	return ""
}

type request struct {
	Src, Ident, Inner string
}

func (r request) label() string { return "rot|" + r.Src + "|" + r.Ident + "|" + r.Inner }

// build assembles the rotation request; innerKey is the certificate key the
// inner fetch request registers ("" if the inner request is not well-formed).
func (w *world) build(s *state, rq request) (*types.RotateNodeCredentialsRequest, string) {
	src := w.source(s, rq.Src)
	if src == nil {
		return nil, ""
	}
	innerKey := ""
	var inner proto.Message
	mk := func(k string, nonce []byte, shift time.Duration) *types.FetchNodeCredentialsRequest {
		info := harness.Info(w.k[k], w.e[k], nonce)
		if shift != 0 {
			info.NotBefore = nil
			info.NotAfter = harness.Info(w.k[k], w.e[k], nonce).NotBefore // window ended long ago
			info.NotAfter.Seconds -= int64((48 * time.Hour).Seconds())
			info.NotBefore = proto.Clone(info.NotAfter).(*types.FetchNodeCredentialsInfo).NotBefore
		}
		return harness.SignedRequest(info, w.k[k])
	}
	fresh := w.freshKey(s)
	switch rq.Inner {
	case "fresh":
		if fresh == "" {
			return nil, ""
		}
		inner, innerKey = mk(fresh, harness.Bytes("rot-nonce-"+fresh, 32), 0), fresh
	case "registered:K2":
		inner, innerKey = mk("K2", harness.Bytes("rot-nonce-K2", 32), 0), "K2"
	case "registered:K1":
		inner, innerKey = mk("K1", harness.Bytes("rot-nonce-K1", 32), 0), "K1"
	case "token-nonce":
		if fresh == "" {
			return nil, ""
		}
		inner, innerKey = mk(fresh, harness.ForgedToken(w.seed), 0), fresh
	case "fresh+id-field-of-K2":
		// the signed bundle's own id field (which the library's node side leaves
		// empty) names another node's record
		if fresh == "" {
			return nil, ""
		}
		info := harness.Info(w.k[fresh], w.e[fresh], harness.Bytes("rot-nonce-"+fresh, 32))
		info.Id = w.k["K2"].KeyId
		inner, innerKey = harness.SignedRequest(info, w.k[fresh]), fresh
	case "fresh+rewrapped-by-own-record":
		// the rotating node attaches, outside the signed bundle, registration
		// info for its new key re-sealed under the keys it shares with the
		// server (as an upstream node would for a downstream one), naming K1's
		// record as the re-wrapper
		if fresh == "" {
			return nil, ""
		}
		fr := mk(fresh, harness.Bytes("rot-nonce-"+fresh, 32), 0)
		blob, err := nodeenrollment.EncryptMessage(harness.Ctx, &types.WrappingRegistrationFlowInfo{CertificatePublicKeyPkix: w.k[fresh].Pkix, Nonce: harness.Bytes("rot-nonce-"+fresh, 32)}, src)
		if err != nil {
			panic(err)
		}
		fr.RewrappedWrappingRegistrationFlowInfo, fr.RewrappingKeyId = blob, w.k["K1"].KeyId
		inner, innerKey = fr, fresh
	case "compact-token-nonce", "nonce-31-bytes", "nonce-33-bytes":
		if fresh == "" {
			return nil, ""
		}
		var n []byte
		switch rq.Inner {
		case "compact-token-nonce":
			// a well-formed activation-token nonce shorter than a node nonce
			n, _ = proto.Marshal(&types.ServerLedActivationTokenNonce{Nonce: harness.Bytes("compact-nonce", 8), HmacKeyBytes: harness.Bytes("compact-key", 8)})
		case "nonce-31-bytes":
			n = harness.Bytes("rot-nonce-"+fresh, 31)
		default:
			n = harness.Bytes("rot-nonce-"+fresh, 33)
		}
		inner, innerKey = mk(fresh, n, 0), fresh
	case "expired":
		if fresh == "" {
			return nil, ""
		}
		info := harness.Info(w.k[fresh], w.e[fresh], harness.Bytes("rot-nonce-"+fresh, 32))
		info.NotBefore.Seconds -= 3 * 86400
		info.NotAfter.Seconds -= 3 * 86400
		inner, innerKey = harness.SignedRequest(info, w.k[fresh]), fresh
	case "wrong-signer":
		if fresh == "" {
			return nil, ""
		}
		info := harness.Info(w.k[fresh], w.e[fresh], harness.Bytes("rot-nonce-"+fresh, 32))
		inner, innerKey = harness.SignedRequest(info, w.k["KU"]), fresh
	case "garbage":
		inner = &types.NodeCredentials{Id: "not-a-fetch-request", CertificatePublicKeyPkix: []byte{1, 2, 3}}
	}
	ct, err := nodeenrollment.EncryptMessage(harness.Ctx, inner, src)
	if err != nil {
		panic(err)
	}
	req := &types.RotateNodeCredentialsRequest{EncryptedFetchNodeCredentialsRequest: ct}
	f := strings.Split(rq.Ident, ":")
	switch f[0] {
	case "key":
		req.CertificatePublicKeyPkix = w.k[f[1]].Pkix
	case "node":
		req.NodeId = f[1]
		req.CertificatePublicKeyPkix = w.k["K1"].Pkix
	}
	return req, innerKey
}

// lookup computes the records the property says are consulted, in order.
func (w *world) lookup(s *state, plain bool, req *types.RotateNodeCredentialsRequest) []*types.NodeInformation {
	if req.NodeId != "" && !plain {
		set := &types.NodeInformationSet{NodeId: req.NodeId}
		if err := s.st.Clone().LoadByNodeId(harness.Ctx, set); err != nil {
			return nil
		}
		return set.Nodes
	}
	id, _ := nodeenrollment.KeyIdFromPkix(req.CertificatePublicKeyPkix)
	if n := s.st.NodeInfo(id); n != nil {
		return []*types.NodeInformation{n}
	}
	return nil
}

// send runs one rotation request and evaluates the oracle.
func (w *world) send(s *state, plain bool, lbl string, req *types.RotateNodeCredentialsRequest, innerKey string, innerValid bool, r *engine.Report) (*state, string, string) {
	ns := s.clone()
	before := s.st.Snapshot()
	var storage nodeenrollment.Storage = ns.st
	if plain {
		storage = harness.Plain{S: ns.st}
	}
	// reference
	var auth *types.NodeInformation
	for _, n := range w.lookup(s, plain, req) {
		probe := new(types.FetchNodeCredentialsRequest)
		if nodeenrollment.DecryptMessage(harness.Ctx, req.EncryptedFetchNodeCredentialsRequest, n, probe) == nil {
			auth = n
			break
		}
	}
	innerFresh := innerKey != "" && s.st.NodeInfo(w.k[innerKey].KeyId) == nil
	allowed := auth != nil && innerValid && innerFresh

	// a server-wide option list that happens to contain WithState must not
	// displace the state carried over from the authenticating record
	var callerOpts []nodeenrollment.Option
	if strings.HasSuffix(lbl, "|caller-nil-option") {
		callerOpts = append(callerOpts, nil) // a conditionally built option that was left unset
	}
	if strings.HasSuffix(lbl, "|caller-state") {
		callerOpts = append(callerOpts, nodeenrollment.WithState(harness.Struct(map[string]any{"record": "caller-supplied"})))
	}
	resp, err := rotation.RotateNodeCredentials(harness.Ctx, storage, req, callerOpts...)
	after := ns.st.Snapshot()
	honoured := err == nil && resp != nil && len(resp.EncryptedFetchNodeCredentialsResponse) > 0
	desc := fmt.Sprintf("%s on {%s}", lbl, w.keyOf(s))
	changed := func() string {
		var d []string
		for k, v := range before {
			if a, ok := after[k]; !ok {
				d = append(d, "removed "+k)
			} else if string(a) != string(v) {
				d = append(d, "altered "+k)
			}
		}
		for k := range after {
			if _, ok := before[k]; !ok {
				d = append(d, "added "+k)
			}
		}
		sort.Strings(d)
		return strings.Join(d, ", ")
	}
	if !honoured && auth != nil && innerValid && !innerFresh && !strings.HasSuffix(lbl, "|faulted") {
		// an authenticated request that is refused only because its inner key is
		// already registered (a replay, an existing key): a storage operation
		// failing during the call must not turn the refusal into an acceptance
		for pos := 1; pos <= ns.st.Calls+1 && pos <= 12; pos++ {
			fs := s.clone()
			fs.st.Faults = map[int]error{pos: errors.New("injected storage failure")}
			var fstorage nodeenrollment.Storage = fs.st
			if plain {
				fstorage = harness.Plain{S: fs.st}
			}
			fresp, ferr := rotation.RotateNodeCredentials(harness.Ctx, fstorage, req, callerOpts...)
			if ferr == nil && fresp != nil && len(fresp.EncryptedFetchNodeCredentialsResponse) > 0 {
				return ns, "honoured-unauthenticated:registered-inner-key:under-storage-fault", fmt.Sprintf("%s is refused, but with storage operation %d of the call failing it was honoured (the already registered key's record was replaced)", desc, pos)
			}
			r.Branch("refusal-stable-under-fault")
		}
	}
	if !honoured {
		if c := changed(); c != "" {
			return ns, "refused-but-storage-changed", fmt.Sprintf("%s was refused (%v) but storage changed: %s", desc, err, c)
		}
		if err == nil {
			return ns, "no-error-no-reply", desc + ": neither an error nor a reply"
		}
		r.Branch("refused")
		return ns, "", ""
	}
	if !allowed {
		why := "no consulted record's shared key opens the payload"
		switch {
		case auth != nil && !innerValid:
			why = "the inner request is not a valid fresh registration request"
		case auth != nil && !innerFresh:
			why = "the inner key is already registered (replay or existing key)"
		}
		cls := "wrong-key"
		switch {
		case auth != nil && !innerValid:
			cls = "invalid-inner"
		case auth != nil:
			cls = "registered-inner-key"
		}
		return ns, "honoured-unauthenticated:" + cls, desc + " was honoured although " + why
	}
	// honoured and allowed: post-conditions
	newId := w.k[innerKey].KeyId
	nrec := ns.st.NodeInfo(newId)
	if nrec == nil {
		return ns, "honoured-without-record", desc + " was honoured but the new key has no record"
	}
	if !proto.Equal(nrec.State, auth.State) {
		return ns, "state-not-carried-over", fmt.Sprintf("%s: the new record's state %v is not the authenticating record's state %v", desc, nrec.State, auth.State)
	}
	for k, v := range before {
		if string(after[k]) != string(v) {
			return ns, "old-record-altered", desc + ": honoured rotation altered or removed " + k
		}
	}
	if len(after) != len(before)+1 {
		return ns, "extra-records", desc + ": more than one record was added"
	}
	// the reply opens only with the authenticating record's current shared key
	authName := w.nameOfId(auth.Id)
	openedBy := []string{}
	var inner *types.FetchNodeCredentialsResponse
	var srcs []string
	for _, kn := range []string{"K0", "K1", "K1b", "K2", "Kn1", "Kn2", "Kn3"} {
		srcs = append(srcs, "cur:"+kn)
	}
	if s.st.NodeInfo(w.k["K0"].KeyId) == nil {
		srcs = append(srcs, "prev:K1") // otherwise the same key material as cur:K0
	}
	srcs = append(srcs, "unrelated")
	for _, src := range srcs {
		c := w.source(s, src)
		if c == nil {
			continue
		}
		out := new(types.FetchNodeCredentialsResponse)
		if nodeenrollment.DecryptMessage(harness.Ctx, resp.EncryptedFetchNodeCredentialsResponse, c, out) == nil {
			openedBy = append(openedBy, src)
			inner = out
		}
	}
	if len(openedBy) != 1 || openedBy[0] != "cur:"+authName {
		return ns, "reply-key:" + strings.Join(openedBy, "+"), fmt.Sprintf("%s: the reply must open with the current shared key of %s only, but opens with %v", desc, authName, openedBy)
	}
	if _, err := harness.OpenResponse(inner, w.k[innerKey], w.e[innerKey]); err != nil {
		return ns, "inner-not-for-new-key", desc + ": the credentials inside the reply do not open with the new key: " + err.Error()
	}
	for _, other := range []string{"K1", "K2", "KU"} {
		if other == innerKey {
			continue
		}
		if _, err := harness.OpenResponse(inner, w.k[innerKey], w.e[other]); err == nil {
			return ns, "inner-opens-with-other-key", desc + ": the credentials inside the reply open with another node's encryption key"
		}
	}
	ns.accepted = append(ns.accepted, lbl)
	ns.payloads[lbl] = req
	switch {
	case strings.HasPrefix(lbl, "rot|prev"):
		r.Branch("honoured:previous-key")
	case strings.Contains(lbl, "|node:X|"):
		r.Branch("honoured:node-id")
	default:
		r.Branch("honoured:key-id")
	}
	return ns, "", ""
}

type replayData struct {
	Init initCfg  `json:"init"`
	Path []string `json:"path"`
	Seed int64    `json:"seed"`
}

func (w *world) apply(s *state, ic initCfg, label string, r *engine.Report) (*state, string, string) {
	switch {
	case strings.HasPrefix(label, "rot|"):
		f := strings.Split(strings.TrimSuffix(strings.TrimSuffix(label, "|caller-state"), "|caller-nil-option"), "|")
		rq := request{f[1], f[2], f[3]}
		req, innerKey := w.build(s, rq)
		if req == nil {
			return nil, "", ""
		}
		return w.send(s, ic.Plain, label, req, innerKey, strings.HasPrefix(rq.Inner, "fresh") || strings.HasPrefix(rq.Inner, "registered:"), r)
	case strings.HasPrefix(label, "replay|"):
		orig := strings.TrimPrefix(label, "replay|")
		req, ok := s.payloads[orig]
		if !ok {
			return nil, "", ""
		}
		f := strings.Split(orig, "|")
		// the inner key of an accepted payload is the fresh key it registered
		innerKey := ""
		probe := new(types.FetchNodeCredentialsRequest)
		for _, src := range []string{f[1]} {
			if c := w.source(s, src); c != nil && nodeenrollment.DecryptMessage(harness.Ctx, req.EncryptedFetchNodeCredentialsRequest, c, probe) == nil {
				info := new(types.FetchNodeCredentialsInfo)
				proto.Unmarshal(probe.Bundle, info)
				id, _ := nodeenrollment.KeyIdFromPkix(info.CertificatePublicKeyPkix)
				innerKey = w.nameOfId(id)
			}
		}
		ns, sig, msg := w.send(s, ic.Plain, label, req, innerKey, true, r)
		if sig == "" {
			r.Branch("replay-refused")
		}
		return ns, sig, msg
	case strings.HasPrefix(label, "rm|"):
		id := w.k[strings.TrimPrefix(label, "rm|")].KeyId
		if s.st.NodeInfo(id) == nil {
			return nil, "", ""
		}
		ns := s.clone()
		ns.st.DeleteRaw("nodeinfo", id)
		return ns, "", ""
	}
	panic(label)
}

func labels(c *engine.Ctx) []string {
	var out []string
	srcs := []string{"cur:K1", "prev:K1", "cur:K1b", "cur:K2", "unrelated", "cur:Kn1"}
	idents := []string{"key:K1", "key:K2", "key:KU", "key:Kn1", "node:X", "node:Z"}
	inners := []string{"fresh", "fresh+rewrapped-by-own-record", "fresh+id-field-of-K2", "registered:K2", "registered:K1", "token-nonce", "compact-token-nonce", "nonce-31-bytes", "nonce-33-bytes", "expired", "wrong-signer", "garbage"}
	for _, s := range srcs {
		for _, i := range idents {
			for _, in := range inners {
				out = append(out, request{s, i, in}.label())
			}
		}
	}
	// the honest shapes again with a caller-supplied WithState option
	for _, s := range []string{"cur:K1", "prev:K1", "cur:Kn1", "cur:K2"} {
		for _, i := range []string{"key:K1", "node:X", "key:Kn1", "key:K2"} {
			out = append(out, request{s, i, "fresh"}.label()+"|caller-state")
			if s == "cur:K1" {
				out = append(out, request{s, i, "fresh"}.label()+"|caller-nil-option")
			}
		}
	}
	return out
}

func explore(c *engine.Ctx, r *engine.Report, ic initCfg) {
	w := newWorld(c.Seed)
	depth := 3
	if c.Thorough() {
		depth = 4
	}
	ls := labels(c)
	b := &engine.BFS[*state]{
		Init:     []*state{w.initial(ic)},
		Key:      w.keyOf,
		MaxDepth: depth,
		Ctx:      c,
		Report:   r,
		Expand: func(s *state, path []string, emit func(string, *state)) {
			all := append([]string{}, ls...)
			for _, a := range s.accepted {
				if !strings.HasPrefix(a, "replay|") {
					all = append(all, "replay|"+a)
				}
			}
			all = append(all, "rm|K1", "rm|K1b")
			for _, l := range all {
				ns, sig, msg := w.apply(s, ic, l, r)
				if ns == nil {
					continue
				}
				r.Eval(1)
				full := append(append([]string{}, path...), l)
				if sig != "" {
					r.Violate(sig, fmt.Sprintf("[init %+v] %s (history %v)", ic, msg, full), replayData{ic, full, c.Seed})
					continue
				}
				if w.keyOf(ns) != w.keyOf(s) {
					if len(path) == 1 {
						r.Sample(map[string]any{"init": ic, "history": full, "state_after": w.keyOf(ns)})
					}
					emit(l, ns)
				}
			}
		},
	}
	b.Run()
	r.Nontrivial(r.States)
}

var inits = []initCfg{
	{Prev: false}, {Prev: true}, {Prev: true, R1b: "before"}, {Prev: true, R1b: "after"}, {R1b: "before"}, {R1b: "after"},
	{Prev: true, R1b: "before", Plain: true}, {Plain: true},
	{Prev: true, KeepOld: "after"}, {Prev: true, KeepOld: "before"}, {Prev: true, R1b: "after", KeepOld: "after"},
}

func run(c *engine.Ctx, r *engine.Report) {
	r.Need("honoured:key-id", "honoured:node-id", "honoured:previous-key", "refused", "replay-refused", "refusal-stable-under-fault")
	for i, ic := range inits {
		if c.Mine(i) {
			explore(c, r, ic)
		}
	}
	vclock.Reset()
}

func replay(c *engine.Ctx, raw json.RawMessage) (string, bool) {
	var rd replayData
	if err := json.Unmarshal(raw, &rd); err != nil {
		return err.Error(), false
	}
	w := newWorld(rd.Seed)
	s := w.initial(rd.Init)
	r := engine.NewReport()
	var out strings.Builder
	for _, l := range rd.Path {
		fmt.Fprintf(&out, "%s on {%s}\n", l, w.keyOf(s))
		ns, sig, msg := w.apply(s, rd.Init, l, r)
		if sig != "" {
			fmt.Fprintf(&out, "  VIOLATION %s: %s\n", sig, msg)
			return out.String(), true
		}
		if ns != nil {
			s = ns
		}
	}
	vclock.Reset()
	return out.String() + "no violation", false
}

func init() {
	engine.Register(&engine.CheckDef{
		ID:    "C10",
		Level: "model_checking",
		Rule: "BFS (quick depth 3, thorough 4) from 11 initial stores (previous key recorded or not; the superseded record still stored before/after its successor; a second record under the node id before/after the first; NodeIdLoader or plain storage) over rotation requests {encrypting key: current of K1/K1b/K2/new key, recorded previous pair, unrelated} x {identification: key id of K1/K2/unknown/new, node id X, unknown node id} x {inner: fresh key, fresh key with registration info re-sealed under the sender's own keys attached, fresh key with the bundle's own id field naming another node's record, registered K1/K2, token-sized nonce, compact token nonce, 31- and 33-byte nonces, expired window, wrong signer, not a request}, the honest shapes again with a caller-supplied WithState option (K2's record carries no state, the others do) and with a nil entry in the caller's option list, replays of every honoured payload and removal of old records; every request refused only for an already registered inner key is retried with each single storage operation failing and must stay refused; " +
			"distinct_nontrivial = canonical states reached (records with node id / previous key / state, and the set of honoured payloads)",
		Assumptions: []string{"removing the record a rotation created and then replaying that rotation is outside the alphabet (the quantifier lists replay and repeated rotation, not revocation)", "forged = encrypted under another pool key"},
		Shards:      func(c *engine.Ctx) int { return 11 },
		Run:         run,
		Replay:      replay,
	})
}
