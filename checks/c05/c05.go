// Package c05: server certificates are minted only against a verified node
// signature (E4: full product of lookup path x record list x signer choices
// against the real tls.GenerateServerCertificates).
package c05

import (
	"crypto/ecdsa"
	"crypto/elliptic"
	"crypto/x509"
	"encoding/json"
	"fmt"
	"strings"

	"github.com/hashicorp/nodeenrollment"
	storeonce "github.com/hashicorp/nodeenrollment/storage/testing"
	nodetls "github.com/hashicorp/nodeenrollment/tls"
	"github.com/hashicorp/nodeenrollment/types"
	"google.golang.org/protobuf/proto"
	"google.golang.org/protobuf/types/known/structpb"
	"verif/engine"
	"verif/harness"
)

type kase struct {
	Path    string   `json:"path"`    // keyid | nodeid | nodeid-emptyset | nodeid-plain | nodeid-storeonce
	List    []string `json:"list"`    // records under the node id, in lookup order (R1 = K1's record, ...)
	Claimed string   `json:"claimed"` // certificate key named in the request
	Nonce   string   `json:"nonce"`   // K1 | K2 | U | missing | empty-nonce
	State   string   `json:"state"`   // absent | K1 | K2 | U | unsigned
	Skip    bool     `json:"skip"`
	Seed    int64    `json:"seed"`
}

type world struct {
	keys map[string]*harness.CertKey
	base *harness.MemStore // roots only
	// a certificate key that is not an ed25519 key (record RE / claimed key KE):
	// such a record can verify nothing
	ecPkix  []byte
	ecKeyId string
}

func newWorld(seed int64) *world {
	w := &world{keys: map[string]*harness.CertKey{}}
	for _, n := range []string{"K1", "K2", "K3", "U"} {
		w.keys[n] = harness.NewCertKey(n, seed)
	}
	w.base = harness.NewMemStore()
	harness.InitRoots(w.base)
	ek, err := ecdsa.GenerateKey(elliptic.P256(), harness.DetRand("c05-ecdsa"))
	if err != nil {
		panic(err)
	}
	w.ecPkix, _ = x509.MarshalPKIXPublicKey(&ek.PublicKey)
	w.ecKeyId, _ = nodeenrollment.KeyIdFromPkix(w.ecPkix)
	return w
}

var clientState = harness.Struct(map[string]any{"who": "node", "n": 7.0})

func permsOfSubsets(items []string) [][]string {
	var out [][]string
	var rec func(cur []string, used map[string]bool)
	rec = func(cur []string, used map[string]bool) {
		out = append(out, append([]string{}, cur...))
		for _, it := range items {
			if !used[it] {
				used[it] = true
				rec(append(cur, it), used)
				used[it] = false
			}
		}
	}
	rec(nil, map[string]bool{})
	return out
}

func (w *world) one(k kase, r *engine.Report) (string, string) {
	st := w.base.Clone()
	record := func(rn, nodeId string) *types.NodeInformation {
		if rn == "RE" {
			return &types.NodeInformation{Id: w.ecKeyId, CertificatePublicKeyPkix: w.ecPkix, CertificatePublicKeyType: types.KEYTYPE_ED25519, NodeId: nodeId}
		}
		key := w.keys["K"+rn[1:]]
		ni := &types.NodeInformation{Id: key.KeyId, CertificatePublicKeyPkix: key.Pkix, CertificatePublicKeyType: types.KEYTYPE_ED25519, NodeId: nodeId}
		if rn == "R1" {
			// R1 is the product of a rotation: it names the key it replaced (U),
			// whose own record is gone - a signature by U verifies against nothing
			ni.PreviousCertificatePublicKeyPkix = w.keys["U"].Pkix
		}
		return ni
	}
	for _, rn := range k.List {
		ni := record(rn, "node-X")
		st.PutNodeInfo(ni)
		st.NodeOrder = append(st.NodeOrder, ni.Id)
	}
	claimedPkix := w.ecPkix
	if k.Claimed != "KE" {
		claimedPkix = w.keys[k.Claimed].Pkix
	}
	nonce := harness.Bytes("c05-nonce", 32)
	req := &types.GenerateServerCertificatesRequest{
		CertificatePublicKeyPkix: claimedPkix,
		Nonce:                    nonce,
		SkipVerification:         k.Skip,
	}
	switch k.Nonce {
	case "K1", "K2", "U":
		req.NonceSignature = w.keys[k.Nonce].Sign(nonce)
	case "empty-nonce":
		req.Nonce = nil
		req.NonceSignature = w.keys["K1"].Sign(nil)
	}
	stateBytes, _ := proto.Marshal(clientState)
	switch k.State {
	case "K1", "K2", "U":
		req.ClientState = stateBytes
		req.ClientStateSignature = w.keys[k.State].Sign(stateBytes)
	case "unsigned":
		req.ClientState = stateBytes
	case "sig-1-byte", "sig-63-bytes", "sig-65-bytes":
		// a state signature of a length no ed25519 signature has
		var n int
		fmt.Sscanf(k.State, "sig-%d", &n)
		req.ClientState = stateBytes
		req.ClientStateSignature = append(w.keys["K1"].Sign(stateBytes), 0)[:n]
	}
	var storage nodeenrollment.Storage = st
	switch k.Path {
	case "nodeid":
		req.NodeId = "node-X"
	case "nodeid-emptyset":
		// a NodeIdLoader that reports "nothing under this node id" as an empty set without an error
		req.NodeId = "node-X"
		st.EmptySetNoError = true
	case "nodeid-plain":
		req.NodeId = "node-X"
		storage = harness.Plain{S: st}
	case "nodeid-storeonce":
		// the library's own store-once back end as the node-id loader; every
		// record that is not in the list is registered under a node id that
		// differs from the requested one in letter case only
		req.NodeId = "node-X"
		so, err := storeonce.New(harness.Ctx)
		if err != nil {
			panic(err)
		}
		roots, _ := types.LoadRootCertificates(harness.Ctx, st)
		if err := roots.Store(harness.Ctx, so); err != nil {
			panic(err)
		}
		in := map[string]bool{}
		for _, rn := range k.List {
			in[rn] = true
			if err := so.Store(harness.Ctx, record(rn, "node-X")); err != nil {
				panic(err)
			}
		}
		for _, rn := range []string{"R1", "R2", "R3"} {
			if !in[rn] {
				if err := so.Store(harness.Ctx, record(rn, "NODE-x")); err != nil {
					panic(err)
				}
			}
		}
		storage = so
	}

	// reference: which records does the lookup yield
	var lookup []string
	if k.Path == "nodeid" || k.Path == "nodeid-emptyset" || k.Path == "nodeid-storeonce" {
		lookup = k.List
	} else {
		for _, rn := range k.List {
			if "K"+rn[1:] == k.Claimed {
				lookup = []string{rn}
			}
		}
	}
	verified := false
	for _, rn := range lookup {
		kn := "K" + rn[1:]
		if k.Nonce == kn && (k.State == "absent" || k.State == kn) {
			verified = true
		}
	}
	want := k.Skip || verified

	var resp *types.GenerateServerCertificatesResponse
	var err error
	panicked := ""
	sent := proto.Clone(req).(*types.GenerateServerCertificatesRequest)
	func() {
		defer func() {
			if p := recover(); p != nil {
				panicked = fmt.Sprint(p)
			}
		}()
		resp, err = nodetls.GenerateServerCertificates(harness.Ctx, storage, req)
	}()
	// the verdict of one call lives in that call: the caller's request object
	// (which a chained generate function hands on, or a retry re-submits) is
	// left as it was
	if panicked == "" && !proto.Equal(req, sent) {
		return "request-modified", fmt.Sprintf("path=%s records=%v claimed=%s nonce=%s state=%s skip=%v: GenerateServerCertificates changed the request it was given (skip_verification now %v)", k.Path, k.List, k.Claimed, k.Nonce, k.State, k.Skip, req.SkipVerification)
	}
	desc := fmt.Sprintf("path=%s records-under-node-id=%v claimed=%s nonce-signed-by=%s state=%s skip=%v", k.Path, k.List, k.Claimed, k.Nonce, k.State, k.Skip)
	if panicked != "" {
		return "panic", desc + ": GenerateServerCertificates panicked: " + panicked
	}
	got := err == nil && resp != nil && len(resp.CertificateBundles) > 0
	pos := "absent"
	for i, rn := range lookup {
		if "K"+rn[1:] == k.Nonce {
			switch {
			case len(lookup) == 1:
				pos = "only"
			case i == 0:
				pos = "first"
			case i == len(lookup)-1:
				pos = "last"
			default:
				pos = "middle"
			}
		}
	}
	switch {
	case got && !want:
		return fmt.Sprintf("minted-unverified:%s:nonce=%s:state=%s:signer-record-%s", k.Path, sigClass(k.Nonce, lookup), sigClass(k.State, lookup), pos),
			desc + ": certificates were generated although no record in the lookup result verifies the nonce (and client state) signature"
	case !got && err == nil:
		return "no-error-no-certs", desc + ": neither an error nor certificates"
	case !got && resp != nil:
		return "failure-leaks-response", desc + ": an error was returned together with a response"
	case !got && want:
		return fmt.Sprintf("verified-not-honoured:%s:signer-record-%s", k.Path, pos), desc + fmt.Sprintf(": a record in the lookup result verifies the request but it was refused: %v", err)
	}
	if got {
		if len(resp.CertificateBundles) != 2 || len(resp.CertificatePrivateKeyPkcs8) == 0 {
			return "malformed-response", desc + ": success without two bundles and a key"
		}
		var wantState *structpb.Struct
		if req.ClientState != nil {
			wantState = clientState
		}
		if !proto.Equal(resp.ClientState, wantState) {
			return "state-not-returned", desc + ": returned client state differs from the submitted one"
		}
		if k.Skip {
			r.Branch("minted:skip")
		} else {
			r.Branch("minted:verified:" + k.Path + ":" + pos)
		}
	} else {
		r.Branch("refused")
	}
	return "", ""
}

func sigClass(s string, lookup []string) string {
	switch s {
	case "missing", "empty-nonce", "absent", "unsigned", "sig-1-byte", "sig-63-bytes", "sig-65-bytes":
		return s
	case "U":
		return "unregistered-key"
	}
	for _, rn := range lookup {
		if "K"+rn[1:] == s {
			return "record-in-lookup"
		}
	}
	return "key-outside-lookup"
}

func cases(seed int64, emit func(kase)) {
	lists := permsOfSubsets([]string{"R1", "R2", "R3"})
	// lists in which one record holds a key that is not an ed25519 key
	for _, l := range permsOfSubsets([]string{"R1", "R2", "RE"}) {
		if strings.Contains(strings.Join(l, ","), "RE") {
			lists = append(lists, l)
		}
	}
	for _, path := range []string{"keyid", "nodeid", "nodeid-emptyset", "nodeid-plain", "nodeid-storeonce"} {
		for _, l := range lists {
			for _, claimed := range []string{"K1", "U", "KE"} {
				for _, nonce := range []string{"K1", "K2", "U", "missing", "empty-nonce"} {
					for _, state := range []string{"absent", "K1", "K2", "U", "unsigned", "sig-1-byte", "sig-63-bytes", "sig-65-bytes"} {
						for _, skip := range []bool{false, true} {
							emit(kase{path, l, claimed, nonce, state, skip, seed})
						}
					}
				}
			}
		}
	}
}

func run(c *engine.Ctx, r *engine.Report) {
	w := newWorld(c.Seed)
	r.Need("minted:skip", "refused", "minted:verified:keyid:only", "minted:verified:nodeid:first", "minted:verified:nodeid:last", "minted:verified:nodeid:middle", "minted:verified:nodeid-plain:only")
	i := 0
	cases(c.Seed, func(k kase) {
		i++
		if !c.Mine(i) {
			return
		}
		r.Eval(1)
		sig, msg := w.one(k, r)
		if sig != "" {
			r.Violate(sig, msg, k)
			return
		}
		if !k.Skip {
			r.Nontrivial(1)
		}
		if i%977 == 3 {
			r.Sample(k)
		}
	})
}

func replay(c *engine.Ctx, raw json.RawMessage) (string, bool) {
	var k kase
	if err := json.Unmarshal(raw, &k); err != nil {
		return err.Error(), false
	}
	w := newWorld(k.Seed)
	sig, msg := w.one(k, engine.NewReport())
	if sig == "" {
		return fmt.Sprintf("case %+v: holds", k), false
	}
	return strings.Join([]string{fmt.Sprintf("case %+v", k), sig, msg}, "\n"), true
}

func init() {
	engine.Register(&engine.CheckDef{
		ID:    "C05",
		Level: "exploration",
		Rule: "full product: lookup path {key id, node id on a NodeIdLoader that reports an empty result as ErrNotFound / as an empty set, node id on a plain Storage, node id on the library's store-once back end with the remaining records under a node id differing in letter case only} x every ordered subset of three records under the node id (16 lists) and of two records plus one whose stored key is not an ed25519 key (11 lists) x claimed key {registered, unregistered, the non-ed25519 key} x nonce signer {K1, K2, unregistered, missing, empty nonce} x client state {absent, signed by K1 / K2 / unregistered, unsigned, with a 1- / 63- / 65-byte signature} x skip_verification {false,true} = 32400 calls of the real GenerateServerCertificates against a reference predicate; " +
			"distinct_nontrivial counts the cases (distinct by construction) with verification not waived",
		Assumptions: []string{"a forged signature is a signature by another pool key or a missing one"},
		Shards:      func(c *engine.Ctx) int { return 4 },
		Run:         run,
		Replay:      replay,
	})
}
