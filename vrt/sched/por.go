package vrt

// Partial-order reduction with sleep sets (Godefroid), used for *unbounded*
// exploration: RunPOR records every scheduling step, never schedules a thread
// that is in the current sleep set, and removes from the sleep set every
// thread whose explored transition is dependent on the transition just
// executed. Dependence is decided on footprints: the set of scheduler-owned
// synchronisation objects a transition touched between two scheduling points
// (lock, release, channel operation, select inspection, close, cancel, once).
// A transition that touched something the scheduler cannot name (a generic
// Yield, an unregistered object) is dependent with everything.
//
// Soundness assumes the code between scheduling points is data-race free
// (conflicting plain accesses are ordered by the objects in the footprints);
// the bounded search without reduction and the -race companion do not.

import (
	"fmt"
	"reflect"
	"runtime"
	"sort"
	"unsafe"
)

// Identified is implemented by shim objects: a stable per-execution identity.
type Identified interface{ VrtID() *int }

// SleepEntry is a thread whose transition from the current state has been
// explored elsewhere, with the footprint that transition had.
type SleepEntry struct {
	Thread int
	Foot   []int
	All    bool
}

// Step is one step of a POR execution.
type Step struct {
	Kind    byte // 'y' thread choice, 'd' data choice
	Chosen  int  // thread id ('y') or alternative index ('d')
	Enabled []int
	N       int          // alternatives of a data choice
	Sleep   []SleepEntry // sleep set on arrival (steps at and after the branch point)
	Foot    []int        // footprint of the transition the chosen thread then executed
	FootAll bool
	Label   string
}

type porState struct {
	prefix  []int
	sleepAt int
	init    []SleepEntry
	sleep   []SleepEntry
	steps   []Step
	foot    map[int]bool
	footAll bool
	pruned  bool
	nextID  int
	openTr  int // index of the 'y' step whose transition is in progress (-1: none)
}

// PORExecution is the result of RunPOR.
type PORExecution struct {
	Execution
	Steps  []Step
	Pruned bool // ended because every enabled thread was asleep (a redundant interleaving)
}

// Register gives the scheduler-owned objects reachable from roots stable
// identities (in walk order). Call it in the single-threaded prelude of a body.
func Register(roots ...any) {
	s := active
	if s == nil || s.por == nil {
		return
	}
	seen := map[uintptr]bool{}
	for _, r := range roots {
		s.por.walk(reflect.ValueOf(r), seen, 0)
	}
}

var identifiedType = reflect.TypeOf((*Identified)(nil)).Elem()

func (p *porState) walk(v reflect.Value, seen map[uintptr]bool, depth int) {
	if depth > 12 || !v.IsValid() {
		return
	}
	switch v.Kind() {
	case reflect.Ptr:
		if v.IsNil() {
			return
		}
		if seen[v.Pointer()] {
			return
		}
		seen[v.Pointer()] = true
		if v.Type().Implements(identifiedType) && v.CanInterface() {
			id := v.Interface().(Identified).VrtID()
			if *id == 0 {
				p.nextID++
				*id = p.nextID
			}
		}
		p.walk(v.Elem(), seen, depth+1)
	case reflect.Interface:
		if !v.IsNil() {
			p.walk(v.Elem(), seen, depth+1)
		}
	case reflect.Struct:
		for i := 0; i < v.NumField(); i++ {
			f := v.Field(i)
			if !f.CanInterface() {
				if !f.CanAddr() {
					continue
				}
				f = reflect.NewAt(f.Type(), unsafe.Pointer(f.UnsafeAddr())).Elem()
			}
			// an embedded / by-value shim object: identify it through its address
			if f.CanAddr() && reflect.PtrTo(f.Type()).Implements(identifiedType) {
				id := f.Addr().Interface().(Identified).VrtID()
				if *id == 0 {
					p.nextID++
					*id = p.nextID
				}
			}
			p.walk(f, seen, depth+1)
		}
	case reflect.Slice, reflect.Array:
		for i := 0; i < v.Len() && i < 64; i++ {
			p.walk(v.Index(i), seen, depth+1)
		}
	}
}

// Touch records that the running transition used the object.
func Touch(o Identified) {
	s := active
	if s == nil || s.por == nil {
		return
	}
	id := o.VrtID()
	if *id == 0 {
		// not registered in the prelude: its identity is not stable across
		// executions, so the transition counts as dependent with everything
		s.por.footAll = true
		return
	}
	s.por.foot[*id] = true
}

// TouchAll marks the running transition as dependent with everything.
func TouchAll() {
	if s := active; s != nil && s.por != nil {
		s.por.footAll = true
	}
}

func dependent(e SleepEntry, foot map[int]bool, all bool) bool {
	if all || e.All {
		return true
	}
	for _, id := range e.Foot {
		if foot[id] {
			return true
		}
	}
	return false
}

// closeTransition finishes the transition in progress: stores its footprint in
// its step and wakes (removes from the sleep set) every dependent sleeper.
func (p *porState) closeTransition() {
	if p.openTr < 0 {
		return
	}
	st := &p.steps[p.openTr]
	for id := range p.foot {
		st.Foot = append(st.Foot, id)
	}
	sort.Ints(st.Foot)
	st.FootAll = p.footAll
	if p.openTr >= p.sleepAt {
		var keep []SleepEntry
		for _, e := range p.sleep {
			if e.Thread != st.Chosen && !dependent(e, p.foot, p.footAll) {
				keep = append(keep, e)
			}
		}
		p.sleep = keep
	}
	p.foot = map[int]bool{}
	p.footAll = false
	p.openTr = -1
}

func asleep(sl []SleepEntry, t int) bool {
	for _, e := range sl {
		if e.Thread == t {
			return true
		}
	}
	return false
}

// porPick decides which thread runs next among the enabled ones (canonical
// order). It returns nil if every enabled thread is asleep.
func (s *Sched) porPick(list []*Thread, label string) *Thread {
	p := s.por
	p.closeTransition()
	j := len(p.steps)
	if j == p.sleepAt {
		p.sleep = append([]SleepEntry{}, p.init...)
	}
	st := Step{Kind: 'y', Enabled: ids(list), Label: label}
	if j >= p.sleepAt {
		st.Sleep = append([]SleepEntry{}, p.sleep...)
	}
	var next *Thread
	if j < len(p.prefix) {
		for _, t := range list {
			if t.id == p.prefix[j] {
				next = t
			}
		}
		if next == nil {
			s.fail("diverged", fmt.Sprintf("POR replay divergence at step %d (%s): thread %d is not enabled (enabled %v)", j, label, p.prefix[j], ids(list)))
			return nil
		}
	} else {
		for _, t := range list {
			if !asleep(p.sleep, t.id) {
				next = t
				break
			}
		}
		if next == nil {
			p.pruned = true
			p.steps = append(p.steps, st)
			s.fail("pruned", "sleep-set blocked")
			return nil
		}
	}
	st.Chosen = next.id
	p.steps = append(p.steps, st)
	p.openTr = j
	return next
}

func (s *Sched) porChoose(n int, label string) int {
	p := s.por
	j := len(p.steps)
	if j == p.sleepAt {
		p.sleep = append([]SleepEntry{}, p.init...)
	}
	st := Step{Kind: 'd', N: n, Label: label}
	if j >= p.sleepAt {
		st.Sleep = append([]SleepEntry{}, p.sleep...)
	}
	c := 0
	if j < len(p.prefix) {
		c = p.prefix[j]
		if c < 0 || c >= n {
			s.fail("diverged", fmt.Sprintf("POR replay divergence at data step %d (%s): choice %d of %d", j, label, c, n))
			return -1
		}
	}
	st.Chosen = c
	p.steps = append(p.steps, st)
	return c
}

// RunPOR executes body under the scheduler in sleep-set mode: prefix forces
// the first len(prefix) steps; sleep is the sleep set installed at step
// sleepAt (normally len(prefix)-1, the branch point).
func RunPOR(prefix []int, sleepAt int, sleep []SleepEntry, opt Options, body func()) *PORExecution {
	if active != nil {
		panic("vrt: nested Run")
	}
	if sleepAt < 0 {
		sleepAt = 0
	}
	s := &Sched{finished: make(chan struct{}), maxSteps: opt.MaxSteps, tracing: opt.Trace}
	s.por = &porState{prefix: prefix, sleepAt: sleepAt, init: sleep, foot: map[int]bool{}, openTr: -1}
	if s.maxSteps == 0 {
		s.maxSteps = 200000
	}
	active = s
	t0 := s.newThread("main", body)
	s.cur = t0
	t0.started = true
	t0.wake <- struct{}{}
	<-s.finished
	s.join()
	s.por.closeTransition()
	active = nil
	x := &PORExecution{Steps: s.por.steps, Pruned: s.por.pruned}
	x.Execution = Execution{Failure: s.failure, FailKind: s.failKind, Steps: s.steps, Threads: len(s.threads), Trace: s.trace}
	if x.Pruned {
		x.Failure, x.FailKind = "", ""
	}
	return x
}

var _ = runtime.Goexit
