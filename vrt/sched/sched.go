// Package vrt is the controlled scheduler ("virtual runtime") under which the
// rewritten parts of the module under test and the harness threads run.
//
// Exactly one managed thread runs at any time. Every visible operation (lock,
// channel operation, select, once, context cancel, goroutine spawn, harness
// Point) first calls yieldUntil, which is the only place where control moves
// between threads; the thread to run next is a *choice* taken from a replayed
// prefix or defaulted to 0 (= keep running the current thread if it is still
// enabled, else the lowest enabled id). Data nondeterminism (which ready
// select case fires) goes through Choose on the same choice list.
//
// The package is mapped into the module under test at
// github.com/hashicorp/nodeenrollment/zz_verif/vrt by the build overlay.
package vrt

import (
	"fmt"
	"os"
	"runtime"
	"runtime/debug"
	"strings"
	"sync"
	"time"
)

// Point is one recorded choice point of an execution.
type Point struct {
	N        int    // number of alternatives (>= 2, points with one alternative are not recorded)
	Chosen   int    // alternative taken
	Kind     byte   // 't' thread choice, 'd' data choice
	Preempt  bool   // thread choice at which the running thread was still enabled (alternatives > 0 cost one preemption)
	Label    string // operation the *running* thread was about to perform (or data label)
	Enabled  []int  // thread ids in canonical order (thread choices)
	Thread   int    // id of the thread that was running when the point was reached (-1: none)
	StepsAt  int
	Fallback bool // choice came from the default, not from the replayed prefix
}

// Execution is what one run under the scheduler produced.
type Execution struct {
	Points   []Point
	Failure  string // "" = ran to completion; otherwise deadlock / panic / step limit / divergence
	FailKind string // "deadlock", "panic", "steplimit", "diverged", ""
	Steps    int
	Threads  int
	Trace    []string // optional event log (when tracing is on)
}

func (x *Execution) Choices() []int {
	out := make([]int, len(x.Points))
	for i, p := range x.Points {
		out[i] = p.Chosen
	}
	return out
}

type Thread struct {
	id      int
	name    string
	wake    chan struct{}
	done    bool
	started bool
	enabled func() bool // nil = enabled
	label   string
	// unwinding after an abort
	exited    bool
	unwinding bool
}

func (t *Thread) ID() int { return t.id }

type Sched struct {
	threads  []*Thread
	cur      *Thread
	prefix   []int
	points   []Point
	steps    int
	maxSteps int
	aborted  bool
	failure  string
	failKind string
	finished chan struct{}
	wg       sync.WaitGroup
	trace    []string
	tracing  bool
	endOnce  sync.Once
	por      *porState // non-nil in sleep-set mode (por.go)
	inShim   bool
}

// active is the scheduler of the execution in progress (nil outside Run).
// Only the single running managed thread touches it.
var active *Sched

// Active reports whether a controlled execution is in progress.
func Active() bool { return active != nil }

// Options for Run.
type Options struct {
	MaxSteps int  // 0 = 200000
	Trace    bool // record an event log
	// Watchdog (0 = none) ends an execution that does not finish in that much
	// wall time: a managed thread is then blocked on something the scheduler
	// does not own (a real lock, a peer that never answers). An infrastructure
	// guard two to four orders of magnitude above a normal execution.
	Watchdog time.Duration
}

// Run executes body as thread 0 under a fresh scheduler, replaying prefix and
// defaulting afterwards. It returns when every managed thread has finished or
// the execution was aborted (deadlock, panic, step limit, divergence).
func Run(prefix []int, opt Options, body func()) *Execution {
	if active != nil {
		panic("vrt: nested Run")
	}
	s := &Sched{prefix: prefix, finished: make(chan struct{}), maxSteps: opt.MaxSteps, tracing: opt.Trace}
	if s.maxSteps == 0 {
		s.maxSteps = 200000
	}
	active = s
	t0 := s.newThread("main", body)
	s.cur = t0
	t0.started = true
	t0.wake <- struct{}{}
	if opt.Watchdog > 0 {
		select {
		case <-s.finished:
		case <-time.After(opt.Watchdog):
			// the stuck thread owns the scheduler token; nothing can be unwound
			s.aborted = true
			s.failure = fmt.Sprintf("stuck: the execution did not finish within %v (a managed thread blocks outside the scheduler, e.g. on a lock that is never released or a handshake that is never answered)", opt.Watchdog)
			s.failKind = "stuck"
		}
	} else {
		<-s.finished
	}
	s.join()
	active = nil
	return &Execution{Points: s.points, Failure: s.failure, FailKind: s.failKind, Steps: s.steps, Threads: len(s.threads), Trace: s.trace}
}

// join waits for every thread's goroutine: all of them after a complete
// execution; after an abort, for the unwinding to finish (bounded: a thread
// stuck outside the scheduler cannot be unwound and is abandoned).
func (s *Sched) join() {
	if !s.aborted {
		s.wg.Wait()
		return
	}
	if s.failKind == "stuck" {
		return
	}
	done := make(chan struct{})
	go func() { s.wg.Wait(); close(done) }()
	select {
	case <-done:
	case <-time.After(5 * time.Second):
		fmt.Fprintln(os.Stderr, "vrt: unwinding after an abort did not finish within 5 s; goroutines abandoned")
	}
}

func (s *Sched) newThread(name string, f func()) *Thread {
	t := &Thread{id: len(s.threads), name: name, wake: make(chan struct{}, 1)}
	s.threads = append(s.threads, t)
	s.wg.Add(1)
	go func() {
		defer s.wg.Done()
		<-t.wake
		if s.aborted {
			// never ran: woken only to be unwound
			t.exited = true
			s.unwindNext()
			return
		}
		defer func() {
			r := recover()
			t.exited = true
			if r != nil && !s.aborted {
				s.fail("panic", fmt.Sprintf("panic in thread %d (%s): %v\n%s", t.id, t.name, r, trimStack(debug.Stack())))
			}
			// normal return, runtime.Goexit, or a panic
			if s.aborted {
				s.unwindNext()
				return
			}
			t.done = true
			s.logf("T%d exit", t.id)
			s.scheduleFromExit(t)
			if s.aborted {
				s.unwindNext()
			}
		}()
		f()
	}()
	return t
}

func trimStack(b []byte) string {
	lines := strings.Split(string(b), "\n")
	var keep []string
	for i := 0; i < len(lines) && len(keep) < 40; i++ {
		keep = append(keep, lines[i])
	}
	return strings.Join(keep, "\n")
}

func (s *Sched) logf(format string, a ...any) {
	if s.tracing {
		s.trace = append(s.trace, fmt.Sprintf(format, a...))
	}
}

// fail aborts the execution; the calling thread must exit afterwards.
func (s *Sched) fail(kind, msg string) {
	if s.aborted {
		return
	}
	s.aborted = true
	s.failure = msg
	s.failKind = kind
	// The calling thread exits next (exitCurrent); when its goroutine is gone
	// the parked threads are unwound one after the other (unwindNext), so
	// that aborted executions - every sleep-set pruned one is - leave no
	// goroutines behind.
	s.endOnce.Do(func() { close(s.finished) })
}

// unwindNext wakes one thread that is still parked so that it terminates
// (runtime.Goexit at its scheduling point; its deferred calls run, and every
// scheduler operation they make exits again). The woken thread's own exit
// continues the chain: deferred user code never runs in parallel.
func (s *Sched) unwindNext() {
	for _, t := range s.threads {
		if !t.exited && !t.done && !t.unwinding {
			t.unwinding = true
			t.wake <- struct{}{}
			return
		}
	}
}

func (s *Sched) choose(n int, kind byte, preempt bool, label string, enabled []int, thread int) int {
	if n < 2 {
		return 0
	}
	i := len(s.points)
	c := 0
	fb := true
	if i < len(s.prefix) {
		c = s.prefix[i]
		fb = false
		if c < 0 || c >= n {
			s.fail("diverged", fmt.Sprintf("replay divergence at point %d (%s): choice %d out of range %d", i, label, c, n))
			return -1
		}
	}
	s.points = append(s.points, Point{N: n, Chosen: c, Kind: kind, Preempt: preempt, Label: label, Enabled: enabled, Thread: thread, StepsAt: s.steps, Fallback: fb})
	return c
}

// exitCurrent terminates the calling goroutine after an abort.
func (s *Sched) exitCurrent() {
	runtime.Goexit()
}

func (s *Sched) enabledList(first *Thread) []*Thread {
	var out []*Thread
	if first != nil && !first.done && (first.enabled == nil || first.enabled()) {
		out = append(out, first)
	}
	for _, t := range s.threads {
		if t == first || t.done {
			continue
		}
		if t.enabled == nil || t.enabled() {
			out = append(out, t)
		}
	}
	return out
}

func ids(ts []*Thread) []int {
	out := make([]int, len(ts))
	for i, t := range ts {
		out[i] = t.id
	}
	return out
}

// yieldUntil is the scheduling point of the running thread t: t announces
// that its next operation is enabled iff pred() (nil = always), the next
// thread is chosen, and t continues once it has been chosen (pred is then
// true and nothing ran in between).
func (s *Sched) yieldUntil(pred func() bool, label string) {
	t := s.cur
	if s.aborted {
		s.exitCurrent()
	}
	s.steps++
	if s.steps > s.maxSteps {
		s.fail("steplimit", fmt.Sprintf("step limit %d exceeded (livelock or runaway loop?) at %s", s.maxSteps, label))
		s.exitCurrent()
	}
	t.enabled = pred
	t.label = label
	list := s.enabledList(t)
	if len(list) == 0 {
		s.deadlock()
		s.exitCurrent()
	}
	var next *Thread
	if s.por != nil {
		next = s.porPick(list, label)
		if next == nil {
			s.exitCurrent()
		}
	} else {
		running := list[0] == t
		c := s.choose(len(list), 't', running, label, ids(list), t.id)
		if c < 0 {
			s.exitCurrent()
		}
		next = list[c]
	}
	if next == t {
		t.enabled = nil
		s.logf("T%d %s", t.id, label)
		return
	}
	s.switchTo(t, next)
	t.enabled = nil
	s.logf("T%d %s", t.id, label)
}

func (s *Sched) switchTo(from, next *Thread) {
	s.cur = next
	next.wake <- struct{}{}
	<-from.wake
	// s.cur was set to from by whoever woke us - or the execution was
	// aborted meanwhile and this thread is being unwound
	if s.aborted {
		s.exitCurrent()
	}
}

func (s *Sched) scheduleFromExit(t *Thread) {
	list := s.enabledList(nil)
	if len(list) == 0 {
		all := true
		for _, o := range s.threads {
			if !o.done {
				all = false
			}
		}
		if all {
			s.endOnce.Do(func() { close(s.finished) })
			return
		}
		s.deadlock()
		return
	}
	var next *Thread
	if s.por != nil {
		next = s.porPick(list, "exit")
		if next == nil {
			return
		}
	} else {
		c := 0
		if len(list) > 1 {
			c = s.choose(len(list), 't', false, "exit", ids(list), t.id)
			if c < 0 {
				return
			}
		}
		next = list[c]
	}
	s.cur = next
	next.wake <- struct{}{}
}

func (s *Sched) deadlock() {
	var b strings.Builder
	b.WriteString("deadlock: no enabled thread;")
	for _, t := range s.threads {
		if !t.done {
			fmt.Fprintf(&b, " T%d(%s) blocked at %s;", t.id, t.name, t.label)
		}
	}
	s.fail("deadlock", b.String())
}

// ---------------------------------------------------------------------------
// API used by shims and harnesses

// Yield is a scheduling point before an always-enabled visible operation.
func Yield(label string) {
	s := active
	if s == nil {
		return
	}
	s.yieldUntil(nil, label)
	if s.por != nil && !s.inShim {
		s.por.footAll = true // an operation the scheduler cannot name
	}
}

// ShimYield is Yield for shim operations, which report their own footprint.
func ShimYield(label string) {
	s := active
	if s == nil {
		return
	}
	s.yieldUntil(nil, label)
}

// Await is a scheduling point before an operation that is enabled iff pred().
// Outside a controlled execution pred must hold (single-threaded use).
func Await(pred func() bool, label string) {
	s := active
	if s == nil {
		if pred != nil && !pred() {
			panic("vrt: blocking operation outside a controlled execution: " + label)
		}
		return
	}
	s.yieldUntil(pred, label)
}

// Choose resolves a data choice among n alternatives.
func Choose(n int, label string) int {
	s := active
	if s == nil || n < 2 {
		return 0
	}
	if s.aborted {
		s.exitCurrent()
	}
	if s.por != nil {
		c := s.porChoose(n, label)
		if c < 0 {
			s.exitCurrent()
		}
		return c
	}
	c := s.choose(n, 'd', false, label, nil, s.cur.id)
	if c < 0 {
		s.exitCurrent()
	}
	return c
}

// Go spawns a managed thread.
func Go(f func()) {
	s := active
	if s == nil {
		goFree(f)
		return
	}
	if s.aborted {
		s.exitCurrent()
	}
	t := s.newThread("go", f)
	t.started = true
	s.logf("T%d spawn T%d", s.cur.id, t.id)
	// no scheduling point: a spawn only enables another thread, so a switch
	// right after it is equivalent to one at the spawner's next visible
	// operation (or its exit, which is a choice point)
}

// GoNamed is Go with a thread name for reports.
func GoNamed(name string, f func()) {
	s := active
	if s == nil {
		goFree(f)
		return
	}
	if s.aborted {
		s.exitCurrent()
	}
	t := s.newThread(name, f)
	t.started = true
}

// Aborted reports whether the current execution was aborted; shims called from
// deferred functions while a thread unwinds use it to become no-ops.
func Aborted() bool {
	s := active
	return s != nil && s.aborted
}

// CurrentID returns the id of the running managed thread (-1 outside).
func CurrentID() int {
	s := active
	if s == nil || s.cur == nil {
		return -1
	}
	return s.cur.id
}

// Fail aborts the execution with a harness-detected failure.
func Fail(kind, msg string) {
	s := active
	if s == nil {
		panic(kind + ": " + msg)
	}
	s.fail(kind, msg)
	s.exitCurrent()
}

// Logf adds to the execution's event log when tracing.
func Logf(format string, a ...any) {
	if s := active; s != nil {
		s.logf(format, a...)
	}
}

// free-running mode: outside a controlled execution Go spawns real goroutines;
// WaitFree joins them (used by the race companion, which runs the same harness
// bodies without the scheduler).
var freeWG sync.WaitGroup

func goFree(f func()) {
	freeWG.Add(1)
	go func() {
		defer freeWG.Done()
		f()
	}()
}

// WaitFree waits for the goroutines spawned by Go outside a controlled
// execution.
func WaitFree() { freeWG.Wait() }
