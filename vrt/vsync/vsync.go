// Package vsync mirrors the parts of package sync used by the rewritten files,
// with the blocking behaviour expressed as enabledness predicates for the vrt
// scheduler. The algorithms follow the Go runtime's: Mutex allows barging;
// RWMutex is writer-preferring exactly as sync.RWMutex (a writer first excludes
// other writers, then announces itself so that new readers queue, then waits
// for the active readers to drain; Unlock admits every queued reader at once);
// Once runs f under an internal mutex.
//
// Release operations (Unlock, RUnlock) are not scheduling points: a release
// only enables other threads, so a context switch immediately before it is
// equivalent to one immediately after it (the next visible operation of the
// releasing thread is a scheduling point anyway).
package vsync

import (
	"sort"

	vrt "github.com/hashicorp/nodeenrollment/zz_verif/vrt"
)

// Locker mirrors sync.Locker.
type Locker interface {
	Lock()
	Unlock()
}

type Mutex struct {
	held bool
	id   int
}

func (m *Mutex) VrtID() *int { return &m.id }

func (m *Mutex) Lock() {
	vrt.Await(func() bool { return !m.held }, "Mutex.Lock")
	vrt.Touch(m)
	m.held = true
}

func (m *Mutex) TryLock() bool {
	vrt.ShimYield("Mutex.TryLock")
	vrt.Touch(m)
	if m.held {
		return false
	}
	m.held = true
	return true
}

func (m *Mutex) Unlock() {
	vrt.Touch(m)
	if !m.held {
		if vrt.Aborted() {
			return
		}
		panic("sync: unlock of unlocked mutex")
	}
	m.held = false
}

type rticket struct{ granted bool }

type RWMutex struct {
	wHeld   bool // the writer-exclusion mutex (rw.w)
	pending bool // a writer announced itself (readerCount < 0)
	active  bool // the writer owns the lock
	readers int  // active readers
	waiting []*rticket
	id      int
}

func (rw *RWMutex) VrtID() *int { return &rw.id }

func (rw *RWMutex) Lock() {
	vrt.Await(func() bool { return !rw.wHeld }, "RWMutex.Lock(w)")
	vrt.Touch(rw)
	rw.wHeld = true
	rw.pending = true
	if rw.readers > 0 {
		vrt.Await(func() bool { return rw.readers == 0 }, "RWMutex.Lock(drain)")
		vrt.Touch(rw)
	}
	rw.active = true
}

func (rw *RWMutex) TryLock() bool {
	vrt.ShimYield("RWMutex.TryLock")
	vrt.Touch(rw)
	if rw.wHeld || rw.readers > 0 {
		return false
	}
	rw.wHeld, rw.pending, rw.active = true, true, true
	return true
}

func (rw *RWMutex) Unlock() {
	vrt.Touch(rw)
	if !rw.active {
		if vrt.Aborted() {
			return
		}
		panic("sync: Unlock of unlocked RWMutex")
	}
	rw.active = false
	rw.pending = false
	// admit every queued reader at once, then release the writer mutex
	for _, t := range rw.waiting {
		t.granted = true
		rw.readers++
	}
	rw.waiting = nil
	rw.wHeld = false
}

func (rw *RWMutex) RLock() {
	vrt.ShimYield("RWMutex.RLock")
	vrt.Touch(rw)
	if !rw.pending {
		rw.readers++
		return
	}
	t := &rticket{}
	rw.waiting = append(rw.waiting, t)
	vrt.Await(func() bool { return t.granted }, "RWMutex.RLock(wait)")
	vrt.Touch(rw)
}

func (rw *RWMutex) TryRLock() bool {
	vrt.ShimYield("RWMutex.TryRLock")
	vrt.Touch(rw)
	if rw.pending {
		return false
	}
	rw.readers++
	return true
}

func (rw *RWMutex) RUnlock() {
	vrt.Touch(rw)
	if rw.readers <= 0 {
		if vrt.Aborted() {
			return
		}
		panic("sync: RUnlock of unlocked RWMutex")
	}
	rw.readers--
}

type rlocker RWMutex

func (r *rlocker) Lock()   { (*RWMutex)(r).RLock() }
func (r *rlocker) Unlock() { (*RWMutex)(r).RUnlock() }

func (rw *RWMutex) RLocker() Locker { return (*rlocker)(rw) }

type Once struct {
	done bool
	m    Mutex
	id   int
}

func (o *Once) VrtID() *int { return &o.id }

func (o *Once) Do(f func()) {
	// fast-path load and slow-path lock attempt are one visible step: the
	// state in between is not observable by other threads
	vrt.Await(func() bool { return o.done || !o.m.held }, "Once.Do")
	vrt.Touch(o)
	if o.done {
		return
	}
	o.m.held = true
	defer func() { vrt.Touch(o); o.m.held = false }()
	if !o.done {
		defer func() { o.done = true }()
		f()
	}
}

type WaitGroup struct {
	n int
}

func (wg *WaitGroup) Add(d int) {
	vrt.ShimYield("WaitGroup.Add")
	vrt.TouchAll()
	wg.n += d
	if wg.n < 0 {
		panic("sync: negative WaitGroup counter")
	}
}
func (wg *WaitGroup) Done() { wg.Add(-1) }
func (wg *WaitGroup) Wait() {
	vrt.Await(func() bool { return wg.n == 0 }, "WaitGroup.Wait")
	vrt.TouchAll()
}

// Map is a plain map whose every operation is one atomic visible step.
type Map struct {
	m map[any]any
}

func (m *Map) Load(key any) (any, bool) {
	vrt.ShimYield("Map.Load")
	vrt.TouchAll()
	v, ok := m.m[key]
	return v, ok
}

func (m *Map) Store(key, value any) {
	vrt.ShimYield("Map.Store")
	vrt.TouchAll()
	if m.m == nil {
		m.m = map[any]any{}
	}
	m.m[key] = value
}

func (m *Map) LoadOrStore(key, value any) (any, bool) {
	vrt.ShimYield("Map.LoadOrStore")
	vrt.TouchAll()
	if v, ok := m.m[key]; ok {
		return v, true
	}
	if m.m == nil {
		m.m = map[any]any{}
	}
	m.m[key] = value
	return value, false
}

func (m *Map) LoadAndDelete(key any) (any, bool) {
	vrt.ShimYield("Map.LoadAndDelete")
	vrt.TouchAll()
	v, ok := m.m[key]
	delete(m.m, key)
	return v, ok
}

func (m *Map) Delete(key any) {
	vrt.ShimYield("Map.Delete")
	vrt.TouchAll()
	delete(m.m, key)
}

func (m *Map) Swap(key, value any) (any, bool) {
	vrt.ShimYield("Map.Swap")
	vrt.TouchAll()
	v, ok := m.m[key]
	if m.m == nil {
		m.m = map[any]any{}
	}
	m.m[key] = value
	return v, ok
}

// Range visits a snapshot in a deterministic order (string keys sorted).
func (m *Map) Range(f func(key, value any) bool) {
	vrt.ShimYield("Map.Range")
	vrt.TouchAll()
	type kv struct{ k, v any }
	var all []kv
	for k, v := range m.m {
		all = append(all, kv{k, v})
	}
	sort.Slice(all, func(i, j int) bool {
		a, aok := all[i].k.(string)
		b, bok := all[j].k.(string)
		if aok && bok {
			return a < b
		}
		return aok && !bok
	})
	for _, e := range all {
		if !f(e.k, e.v) {
			return
		}
	}
}

// QueuedReaders reports how many readers are queued behind a writer (self-tests).
func QueuedReaders(rw *RWMutex) int { return len(rw.waiting) }
