// Package vclock is the clock seam. The overlay rewriter (tools/vrewrite)
// replaces every time.Now / time.Until / time.Since / timestamppb.Now call of
// the module under test with the functions below, and adds
// CurrentTime: vclock.Now() to x509.VerifyOptions literals, so that harnesses
// own "now" on both sides of real TLS handshakes.
//
// Modes:
//
//	real    Now() = time.Now()+offset        (offset 0 unless the harness moves it)
//	frozen  Now() = a fixed instant          (exact ties are reachable)
//	ticking Now() = a fixed instant, +1ns per read (the other side of every tie)
//
// The package is mapped into the module under test at
// github.com/hashicorp/nodeenrollment/zz_verif/vclock by the build overlay.
package vclock

import (
	"sync"
	"time"

	"google.golang.org/protobuf/types/known/timestamppb"
)

type mode int

const (
	modeReal mode = iota
	modeFrozen
	modeTicking
)

var (
	mu     sync.Mutex
	m      mode
	offset time.Duration
	fixed  time.Time
	reads  int64
)

// Reset returns to real time with zero offset.
func Reset() {
	mu.Lock()
	defer mu.Unlock()
	m, offset, reads = modeReal, 0, 0
}

// Freeze makes Now return t until changed.
func Freeze(t time.Time) {
	mu.Lock()
	defer mu.Unlock()
	m, fixed = modeFrozen, t
}

// Tick makes Now return t, t+1ns, t+2ns, ... on successive reads.
func Tick(t time.Time) {
	mu.Lock()
	defer mu.Unlock()
	m, fixed = modeTicking, t
}

// Advance moves the clock forward (any mode).
func Advance(d time.Duration) {
	mu.Lock()
	defer mu.Unlock()
	switch m {
	case modeReal:
		offset += d
	default:
		fixed = fixed.Add(d)
	}
}

// Reads reports how often the code under test read the clock.
func Reads() int64 {
	mu.Lock()
	defer mu.Unlock()
	return reads
}

func Now() time.Time {
	mu.Lock()
	defer mu.Unlock()
	reads++
	switch m {
	case modeFrozen:
		return fixed
	case modeTicking:
		t := fixed
		fixed = fixed.Add(time.Nanosecond)
		return t
	default:
		if offset == 0 {
			return time.Now()
		}
		// strip the monotonic reading, the offset clock is a wall clock
		return time.Now().Add(offset).Round(0)
	}
}

// Peek returns the current instant without counting as a read and without
// advancing a ticking clock (harness use only).
func Peek() time.Time {
	mu.Lock()
	defer mu.Unlock()
	switch m {
	case modeFrozen, modeTicking:
		return fixed
	default:
		return time.Now().Add(offset).Round(0)
	}
}

func Until(t time.Time) time.Duration { return t.Sub(Now()) }
func Since(t time.Time) time.Duration { return Now().Sub(t) }

func TimestampNow() *timestamppb.Timestamp { return timestamppb.New(Now()) }
