// Package vcontext mirrors the parts of package context used by the rewritten
// files; Done() returns a modelled channel so that selects on it are owned by
// the scheduler. cancel() closes the Done channel of the context and, in the
// same step, of all its descendants (as cancelCtx does under its locks).
package vcontext

import (
	"context"
	"time"

	vchan "github.com/hashicorp/nodeenrollment/zz_verif/vchan"
	vrt "github.com/hashicorp/nodeenrollment/zz_verif/vrt"
)

var Canceled = context.Canceled
var DeadlineExceeded = context.DeadlineExceeded

type Context interface {
	Deadline() (deadline time.Time, ok bool)
	Done() *vchan.Chan[struct{}]
	Err() error
	Value(key any) any
}

type CancelFunc func()

type emptyCtx struct{}

func (emptyCtx) Deadline() (time.Time, bool) { return time.Time{}, false }
func (emptyCtx) Done() *vchan.Chan[struct{}] { return nil }
func (emptyCtx) Err() error                  { return nil }
func (emptyCtx) Value(key any) any           { return nil }

func Background() Context { return emptyCtx{} }
func TODO() Context       { return emptyCtx{} }

type cancelCtx struct {
	parent   Context
	done     *vchan.Chan[struct{}]
	err      error
	children []*cancelCtx
}

func (c *cancelCtx) Deadline() (time.Time, bool) { return c.parent.Deadline() }
func (c *cancelCtx) Done() *vchan.Chan[struct{}] { return c.done }
func (c *cancelCtx) Err() error {
	vrt.ShimYield("ctx.Err")
	vrt.Touch(c.done)
	return c.err
}
func (c *cancelCtx) Value(key any) any { return c.parent.Value(key) }

func (c *cancelCtx) cancel(err error) {
	if c.err != nil {
		return
	}
	c.err = err
	vchan.CloseQuiet(c.done)
	for _, ch := range c.children {
		ch.cancel(err)
	}
	c.children = nil
}

func WithCancel(parent Context) (Context, CancelFunc) {
	if parent == nil {
		panic("cannot create context from nil parent")
	}
	c := &cancelCtx{parent: parent, done: vchan.Make[struct{}](0)}
	if p, ok := parent.(*cancelCtx); ok {
		if p.err != nil {
			c.cancel(p.err)
		} else {
			p.children = append(p.children, c)
		}
	}
	return c, func() {
		if vrt.Aborted() {
			return
		}
		vrt.ShimYield("ctx.cancel")
		c.cancel(Canceled)
	}
}
