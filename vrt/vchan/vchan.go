// Package vchan models Go channels and select for the vrt scheduler. The
// algorithm is the runtime's: whoever arrives first parks in the channel's
// FIFO queue, the counterpart completes the hand-off; a select with several
// ready cases is a data choice point (every ready case is explored), a select
// with none parks on all its channels; close wakes all parked receivers with
// (zero,false) and makes parked or later senders panic.
package vchan

import (
	vrt "github.com/hashicorp/nodeenrollment/zz_verif/vrt"
)

type selState struct {
	fired     bool
	firedCase int
	panicMsg  string
}

type waiter[T any] struct {
	sel *selState
	idx int
	val T     // sender's value
	dst *T    // receiver's target (may be nil)
	okp *bool // receiver's ok target (may be nil)
}

type Chan[T any] struct {
	buf    []T
	cap    int
	closed bool
	recvq  []*waiter[T]
	sendq  []*waiter[T]
	id     int
}

func (c *Chan[T]) VrtID() *int { return &c.id }

func Make[T any](n int) *Chan[T] { return &Chan[T]{cap: n} }

// Zero returns the zero value of the channel's element type.
func Zero[T any](c *Chan[T]) T { var z T; return z }

func (c *Chan[T]) Len() int { return len(c.buf) }
func (c *Chan[T]) Cap() int { return c.cap }

// Case is one communication clause of a select.
type Case interface {
	ready() bool
	fire()
	enqueue(s *selState, idx int)
	kind() string
	touch()
}

type recvCase[T any] struct {
	c   *Chan[T]
	dst *T
	okp *bool
}

type sendCase[T any] struct {
	c *Chan[T]
	v T
}

func RecvCase[T any](c *Chan[T], dst *T, okp *bool) Case { return &recvCase[T]{c, dst, okp} }
func SendCase[T any](c *Chan[T], v T) Case               { return &sendCase[T]{c, v} }

func firstLive[T any](q *[]*waiter[T]) *waiter[T] {
	for len(*q) > 0 {
		w := (*q)[0]
		*q = (*q)[1:]
		if !w.sel.fired {
			return w
		}
	}
	return nil
}

func hasLive[T any](q []*waiter[T]) bool {
	for _, w := range q {
		if !w.sel.fired {
			return true
		}
	}
	return false
}

func (r *recvCase[T]) kind() string { return "recv" }
func (r *recvCase[T]) touch() {
	if r.c != nil {
		vrt.Touch(r.c)
	}
}
func (r *recvCase[T]) ready() bool {
	c := r.c
	if c == nil {
		return false
	}
	return len(c.buf) > 0 || hasLive(c.sendq) || c.closed
}
func (r *recvCase[T]) set(v T, ok bool) {
	if r.dst != nil {
		*r.dst = v
	}
	if r.okp != nil {
		*r.okp = ok
	}
}
func (r *recvCase[T]) fire() {
	c := r.c
	switch {
	case len(c.buf) > 0:
		v := c.buf[0]
		c.buf = c.buf[1:]
		// a parked sender can now move its value into the buffer
		if w := firstLive(&c.sendq); w != nil {
			c.buf = append(c.buf, w.val)
			w.sel.fired, w.sel.firedCase = true, w.idx
		}
		r.set(v, true)
	case hasLive(c.sendq):
		w := firstLive(&c.sendq)
		w.sel.fired, w.sel.firedCase = true, w.idx
		r.set(w.val, true)
	case c.closed:
		var z T
		r.set(z, false)
	default:
		panic("vchan: recv fired while not ready")
	}
}
func (r *recvCase[T]) enqueue(s *selState, idx int) {
	if r.c == nil {
		return
	}
	r.c.recvq = append(r.c.recvq, &waiter[T]{sel: s, idx: idx, dst: r.dst, okp: r.okp})
}

func (s *sendCase[T]) kind() string { return "send" }
func (s *sendCase[T]) touch() {
	if s.c != nil {
		vrt.Touch(s.c)
	}
}
func (s *sendCase[T]) ready() bool {
	c := s.c
	if c == nil {
		return false
	}
	return c.closed || hasLive(c.recvq) || len(c.buf) < c.cap
}
func (s *sendCase[T]) fire() {
	c := s.c
	switch {
	case c.closed:
		panic("send on closed channel")
	case hasLive(c.recvq):
		w := firstLive(&c.recvq)
		if w.dst != nil {
			*w.dst = s.v
		}
		if w.okp != nil {
			*w.okp = true
		}
		w.sel.fired, w.sel.firedCase = true, w.idx
	case len(c.buf) < c.cap:
		c.buf = append(c.buf, s.v)
	default:
		panic("vchan: send fired while not ready")
	}
}
func (s *sendCase[T]) enqueue(st *selState, idx int) {
	if s.c == nil {
		return
	}
	s.c.sendq = append(s.c.sendq, &waiter[T]{sel: st, idx: idx, val: s.v})
}

// Select performs one select statement and returns the index of the case
// that fired, or -1 for the default clause.
func Select(hasDefault bool, cases ...Case) int {
	vrt.ShimYield("select")
	for _, c := range cases {
		c.touch() // inspecting a channel's state is part of the footprint
	}
	var ready []int
	for i, c := range cases {
		if c.ready() {
			ready = append(ready, i)
		}
	}
	if len(ready) > 0 {
		k := ready[vrt.Choose(len(ready), "select-case")]
		cases[k].fire()
		return k
	}
	if hasDefault {
		return -1
	}
	st := &selState{}
	for i, c := range cases {
		c.enqueue(st, i)
	}
	label := "select(parked)"
	if len(cases) == 1 {
		label = "chan " + cases[0].kind() + "(parked)"
	}
	vrt.Await(func() bool { return st.fired }, label)
	for _, c := range cases {
		c.touch()
	}
	if st.panicMsg != "" {
		panic(st.panicMsg)
	}
	return st.firedCase
}

func Send[T any](c *Chan[T], v T) {
	Select(false, SendCase(c, v))
}

func Recv[T any](c *Chan[T]) T {
	var v T
	Select(false, RecvCase(c, &v, nil))
	return v
}

func Recv2[T any](c *Chan[T]) (T, bool) {
	var v T
	var ok bool
	Select(false, RecvCase(c, &v, &ok))
	return v, ok
}

func Close[T any](c *Chan[T]) {
	vrt.ShimYield("close")
	if c == nil {
		panic("close of nil channel")
	}
	vrt.Touch(c)
	if c.closed {
		panic("close of closed channel")
	}
	c.closed = true
	for {
		w := firstLive(&c.recvq)
		if w == nil {
			break
		}
		var z T
		if w.dst != nil {
			*w.dst = z
		}
		if w.okp != nil {
			*w.okp = false
		}
		w.sel.fired, w.sel.firedCase = true, w.idx
	}
	for {
		w := firstLive(&c.sendq)
		if w == nil {
			break
		}
		w.sel.fired, w.sel.firedCase = true, w.idx
		w.sel.panicMsg = "send on closed channel"
	}
}

// CloseQuiet closes without a scheduling point (used by vcontext, whose cancel
// is itself the visible operation).
func CloseQuiet[T any](c *Chan[T]) {
	vrt.Touch(c)
	if c.closed {
		return
	}
	c.closed = true
	for {
		w := firstLive(&c.recvq)
		if w == nil {
			break
		}
		var z T
		if w.dst != nil {
			*w.dst = z
		}
		if w.okp != nil {
			*w.okp = false
		}
		w.sel.fired, w.sel.firedCase = true, w.idx
	}
}
