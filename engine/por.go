package engine

import (
	"fmt"
	"time"

	vrt "github.com/hashicorp/nodeenrollment/zz_verif/vrt"
)

// RunPORDFS explores *all* interleavings of the scenario up to Mazurkiewicz
// equivalence: stateless depth-first search with sleep sets (no preemption
// bound). See vrt/sched/por.go for the dependence relation and its assumption.
func RunPORDFS(cfg DFSConfig) *DFSResult {
	if cfg.MaxViolations == 0 {
		cfg.MaxViolations = 3
	}
	d := &pdfs{cfg: cfg, res: &DFSResult{Bound: -1, Exhaustive: true, Outcomes: map[string]int{}}}
	d.explore(nil, 0, nil)
	return d.res
}

type pdfs struct {
	cfg DFSConfig
	res *DFSResult
}

func (d *pdfs) stop() bool {
	if len(d.res.Violations) >= d.cfg.MaxViolations {
		return true
	}
	if !d.cfg.Deadline.IsZero() && time.Now().After(d.cfg.Deadline) {
		d.res.Exhaustive = false
		return true
	}
	return false
}

func has(l []int, x int) bool {
	for _, y := range l {
		if x == y {
			return true
		}
	}
	return false
}

func asleepIn(sl []vrt.SleepEntry, t int) bool {
	for _, e := range sl {
		if e.Thread == t {
			return true
		}
	}
	return false
}

// explore runs the execution selected by prefix with the given sleep set
// installed at its last forced step, judges it, and recurses into every
// alternative of every later step. It returns the footprint of the transition
// taken at the branch step (the last step of prefix).
func (d *pdfs) explore(prefix []int, sleepAt int, sleep []vrt.SleepEntry) ([]int, bool) {
	if d.stop() {
		return nil, true
	}
	var obs any
	x := vrt.RunPOR(prefix, sleepAt, sleep, vrt.Options{MaxSteps: d.cfg.MaxSteps}, func() { obs = d.cfg.Body() })
	d.res.Executions++
	if len(x.Steps) > d.res.MaxDepth {
		d.res.MaxDepth = len(x.Steps)
	}
	if x.Threads > d.res.Threads {
		d.res.Threads = x.Threads
	}
	var foot []int
	all := true
	if b := len(prefix) - 1; b >= 0 && b < len(x.Steps) && (b < len(x.Steps)-1 || x.Failure == "") {
		foot, all = x.Steps[b].Foot, x.Steps[b].FootAll
	}
	if x.Pruned {
		d.res.Outcomes["(sleep-set pruned)"]++
	} else {
		msg := ""
		switch {
		case x.FailKind == "diverged":
			msg = "INFRA nondeterministic replay: " + x.Failure
		case x.Failure != "":
			msg = x.Failure
		case d.cfg.Check != nil:
			msg = d.cfg.Check(&x.Execution, obs)
		}
		if d.cfg.Outcome != nil {
			d.res.Outcomes[d.cfg.Outcome(&x.Execution, obs)]++
		}
		if msg != "" {
			var choices []int
			var labels []string
			for _, s := range x.Steps {
				choices = append(choices, s.Chosen)
				labels = append(labels, fmt.Sprintf("%c %s -> %d", s.Kind, s.Label, s.Chosen))
			}
			d.res.Violations = append(d.res.Violations, DFSViolation{Scenario: d.cfg.Name, Choices: choices, Message: msg, Labels: labels})
			return foot, true
		}
	}
	choices := make([]int, len(x.Steps))
	for i, s := range x.Steps {
		choices[i] = s.Chosen
	}
	for j := len(prefix); j < len(x.Steps); j++ {
		st := x.Steps[j]
		if st.Kind == 'd' {
			for alt := 0; alt < st.N; alt++ {
				if alt == st.Chosen {
					continue
				}
				np := append(append([]int{}, choices[:j]...), alt)
				d.explore(np, j, st.Sleep)
				if d.stop() {
					return foot, all
				}
			}
			continue
		}
		if st.Chosen == 0 && len(st.Enabled) == 0 {
			continue
		}
		explored := []vrt.SleepEntry{}
		if j < len(x.Steps)-1 || x.Failure == "" && !x.Pruned {
			explored = append(explored, vrt.SleepEntry{Thread: st.Chosen, Foot: st.Foot, All: st.FootAll})
		} else {
			explored = append(explored, vrt.SleepEntry{Thread: st.Chosen, All: true})
		}
		if x.Pruned && j == len(x.Steps)-1 {
			continue // the blocked step: every enabled thread was asleep
		}
		for _, a := range st.Enabled {
			if a == st.Chosen || asleepIn(st.Sleep, a) {
				continue
			}
			z := append(append([]vrt.SleepEntry{}, st.Sleep...), explored...)
			np := append(append([]int{}, choices[:j]...), a)
			f, fa := d.explore(np, j, z)
			explored = append(explored, vrt.SleepEntry{Thread: a, Foot: f, All: fa})
			if d.stop() {
				return foot, all
			}
		}
	}
	return foot, all
}
