package engine

import (
	"sort"
	"sync"
)

// BFS is the explicit-state search (E1): breadth-first over the real
// transition function, de-duplicated by a canonical key.
type BFS[S any] struct {
	Init []S
	// Key is the canonical form of a state (see the per-check argument for
	// which fields may be dropped).
	Key func(S) string
	// Expand applies every enabled transition to a *copy* of s by calling the
	// implementation, evaluates the oracle (reporting violations itself) and
	// emits the successors. path is the label sequence that reached s.
	// With Parallel > 1 it must be safe to call concurrently for different
	// states of the same group.
	Expand func(s S, path []string, emit func(label string, next S))
	// MaxDepth bounds the depth (0 = run to fixpoint).
	MaxDepth int
	Ctx      *Ctx
	Report   *Report
	// MaxStates is a safety valve (0 = none); hitting it clears exhaustive.
	MaxStates int
	// Parallel > 1 expands the states of one level concurrently, group by
	// group (Group/BeforeGroup let a check set process-global seams such as
	// the virtual clock once per group). Successors are merged in state order,
	// so the search is deterministic.
	Parallel    int
	Group       func(S) int
	BeforeGroup func(g int)
}

type bfsNode[S any] struct {
	s    S
	path []string
}

type bfsSucc[S any] struct {
	label string
	s     S
}

// Run explores and fills the report's States/Transitions/MaxDepth. It returns
// true if the search reached a fixpoint (no unexpanded state left).
func (b *BFS[S]) Run() bool {
	seen := map[string]bool{}
	var frontier []bfsNode[S]
	for _, s := range b.Init {
		k := b.Key(s)
		if !seen[k] {
			seen[k] = true
			frontier = append(frontier, bfsNode[S]{s, nil})
		}
	}
	depth := 0
	fix := true
	for len(frontier) > 0 {
		if b.MaxDepth > 0 && depth >= b.MaxDepth {
			fix = false
			break
		}
		// group the level
		groups := map[int][]int{}
		var gids []int
		for i, n := range frontier {
			g := 0
			if b.Group != nil {
				g = b.Group(n.s)
			}
			if _, ok := groups[g]; !ok {
				gids = append(gids, g)
			}
			groups[g] = append(groups[g], i)
		}
		sort.Ints(gids)
		succs := make([][]bfsSucc[S], len(frontier))
		aborted := false
		for _, g := range gids {
			if b.BeforeGroup != nil {
				b.BeforeGroup(g)
			}
			idx := groups[g]
			par := b.Parallel
			if par < 1 {
				par = 1
			}
			var wg sync.WaitGroup
			next := make(chan int, len(idx))
			for _, i := range idx {
				next <- i
			}
			close(next)
			for w := 0; w < par; w++ {
				wg.Add(1)
				go func() {
					defer wg.Done()
					for i := range next {
						if (b.Ctx != nil && b.Ctx.Expired()) || b.Report.tooMany() {
							continue
						}
						n := frontier[i]
						var local []bfsSucc[S]
						b.Expand(n.s, n.path, func(label string, ns S) {
							local = append(local, bfsSucc[S]{label, ns})
						})
						succs[i] = local
					}
				}()
			}
			wg.Wait()
			if b.Ctx != nil && b.Ctx.Expired() {
				b.Report.Incomplete("internal deadline reached during BFS")
				aborted = true
				break
			}
			if b.Report.tooMany() {
				aborted = true
				break
			}
		}
		var next []bfsNode[S]
		for i, n := range frontier {
			for _, su := range succs[i] {
				b.Report.Transitions++
				b.Report.Traces++
				k := b.Key(su.s)
				if seen[k] {
					continue
				}
				if b.MaxStates > 0 && len(seen) >= b.MaxStates {
					fix = false
					continue
				}
				seen[k] = true
				p := make([]string, len(n.path)+1)
				copy(p, n.path)
				p[len(n.path)] = su.label
				next = append(next, bfsNode[S]{su.s, p})
			}
		}
		if aborted {
			b.Report.States = int64(len(seen))
			return false
		}
		frontier = next
		depth++
		if int64(depth) > b.Report.MaxDepth && len(next) > 0 {
			b.Report.MaxDepth = int64(depth)
		}
	}
	b.Report.States = int64(len(seen))
	return fix
}
