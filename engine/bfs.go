package engine

// BFS is the explicit-state search (E1): breadth-first over the real
// transition function, de-duplicated by a canonical key.
type BFS[S any] struct {
	Init []S
	// Key is the canonical form of a state (see the per-check argument for
	// which fields may be dropped).
	Key func(S) string
	// Expand applies every enabled transition to a *copy* of s by calling the
	// implementation, evaluates the oracle (reporting violations itself) and
	// emits the successors. path is the label sequence that reached s.
	Expand func(s S, path []string, emit func(label string, next S))
	// MaxDepth bounds the depth (0 = run to fixpoint).
	MaxDepth int
	Ctx      *Ctx
	Report   *Report
	// MaxStates is a safety valve (0 = none); hitting it clears exhaustive.
	MaxStates int
}

type bfsNode[S any] struct {
	s    S
	path []string
}

// Run explores and fills the report's States/Transitions/MaxDepth. It returns
// true if the search reached a fixpoint (no unexpanded state left).
func (b *BFS[S]) Run() bool {
	seen := map[string]bool{}
	var frontier []bfsNode[S]
	for _, s := range b.Init {
		k := b.Key(s)
		if !seen[k] {
			seen[k] = true
			frontier = append(frontier, bfsNode[S]{s, nil})
		}
	}
	depth := 0
	fix := true
	for len(frontier) > 0 {
		if b.MaxDepth > 0 && depth >= b.MaxDepth {
			fix = false
			break
		}
		var next []bfsNode[S]
		for _, n := range frontier {
			if b.Ctx != nil && b.Ctx.Expired() {
				b.Report.Incomplete("internal deadline reached during BFS")
				b.Report.States = int64(len(seen))
				return false
			}
			if len(b.Report.Violations) >= 20 {
				b.Report.States = int64(len(seen))
				return false
			}
			b.Expand(n.s, n.path, func(label string, ns S) {
				b.Report.Transitions++
				b.Report.Traces++
				k := b.Key(ns)
				if seen[k] {
					return
				}
				if b.MaxStates > 0 && len(seen) >= b.MaxStates {
					fix = false
					return
				}
				seen[k] = true
				p := make([]string, len(n.path)+1)
				copy(p, n.path)
				p[len(n.path)] = label
				next = append(next, bfsNode[S]{ns, p})
			})
		}
		frontier = next
		depth++
		if int64(depth) > b.Report.MaxDepth && len(next) > 0 {
			b.Report.MaxDepth = int64(depth)
		}
	}
	b.Report.States = int64(len(seen))
	return fix
}
