// Package engine holds the exploration drivers shared by the checks.
package engine

import (
	"fmt"
	"time"

	vrt "github.com/hashicorp/nodeenrollment/zz_verif/vrt"
)

// DFSConfig configures a stateless depth-first exploration of one scenario
// under the vrt scheduler with iterative preemption bounding.
type DFSConfig struct {
	Name string
	// Body is run as thread 0 of every execution. It must build all its state
	// afresh. It returns an observation that Check evaluates after the
	// execution finished.
	Body func() any
	// Check evaluates the oracle on one finished execution; a non-empty
	// string is a violation description.
	Check func(x *vrt.Execution, obs any) string
	// Bound is the maximum number of preemptions (-1 = unbounded).
	Bound int
	// Deadline ends the exploration early (exhaustive=false).
	Deadline time.Time
	// MaxViolations stops after that many violations (default 3).
	MaxViolations int
	MaxSteps      int
	// Watchdog is passed to the scheduler (0 = none).
	Watchdog time.Duration
	// Outcome classifies an execution for the outcome histogram.
	Outcome func(x *vrt.Execution, obs any) string
	// Shard/Shards split the search on the first branching levels.
	Shard, Shards int
}

type DFSViolation struct {
	Scenario string   `json:"scenario"`
	Choices  []int    `json:"choices"`
	Message  string   `json:"message"`
	Labels   []string `json:"labels,omitempty"`
}

type DFSResult struct {
	Executions int
	Points     int // total choice points seen
	MaxDepth   int
	Bound      int
	Exhaustive bool
	Violations []DFSViolation
	Outcomes   map[string]int
	Threads    int
}

type dfs struct {
	cfg DFSConfig
	res *DFSResult
	n   int
}

func RunDFS(cfg DFSConfig) *DFSResult {
	if cfg.MaxViolations == 0 {
		cfg.MaxViolations = 3
	}
	if cfg.Shards == 0 {
		cfg.Shards = 1
	}
	d := &dfs{cfg: cfg, res: &DFSResult{Bound: cfg.Bound, Exhaustive: true, Outcomes: map[string]int{}}}
	d.explore(nil, 0, 0)
	return d.res
}

// RunOnce replays one recorded choice list.
func RunOnce(cfg DFSConfig, choices []int, trace bool) (*vrt.Execution, any, string) {
	var obs any
	x := vrt.Run(choices, vrt.Options{MaxSteps: cfg.MaxSteps, Trace: trace, Watchdog: cfg.Watchdog}, func() { obs = cfg.Body() })
	msg := ""
	if x.Failure != "" {
		msg = x.Failure
	} else if cfg.Check != nil {
		msg = cfg.Check(x, obs)
	}
	return x, obs, msg
}

func (d *dfs) stop() bool {
	if len(d.res.Violations) >= d.cfg.MaxViolations {
		return true
	}
	if !d.cfg.Deadline.IsZero() && time.Now().After(d.cfg.Deadline) {
		d.res.Exhaustive = false
		return true
	}
	return false
}

// explore runs the execution selected by prefix and recurses into its
// alternatives. level is the number of non-default choices made so far.
// Sharding: the executions of levels 0 and 1 are run by every shard (they are
// needed to enumerate the subtrees below) but counted and judged by shard 0
// only; the level-2 subtrees are dealt round-robin to the shards.
func (d *dfs) explore(prefix []int, used int, level int) {
	if d.stop() {
		return
	}
	var obs any
	x := vrt.Run(prefix, vrt.Options{MaxSteps: d.cfg.MaxSteps, Watchdog: d.cfg.Watchdog}, func() { obs = d.cfg.Body() })
	mine := d.cfg.Shards <= 1 || level >= 2 || d.cfg.Shard == 0
	if mine {
		d.res.Executions++
		d.res.Points += len(x.Points) - len(prefix)
	}
	if len(x.Points) > d.res.MaxDepth {
		d.res.MaxDepth = len(x.Points)
	}
	if x.Threads > d.res.Threads {
		d.res.Threads = x.Threads
	}
	msg := ""
	switch {
	case !mine:
	case x.FailKind == "diverged":
		msg = "INFRA nondeterministic replay: " + x.Failure
	case x.Failure != "":
		msg = x.Failure
	case d.cfg.Check != nil:
		msg = d.cfg.Check(x, obs)
	}
	if !mine {
	} else if d.cfg.Outcome != nil {
		d.res.Outcomes[d.cfg.Outcome(x, obs)]++
	} else if x.Failure != "" {
		d.res.Outcomes[x.FailKind]++
	} else {
		d.res.Outcomes[fmt.Sprint(obs)]++
	}
	if msg != "" {
		var labels []string
		for _, p := range x.Points {
			labels = append(labels, fmt.Sprintf("%c T%d %s -> %d/%d", p.Kind, p.Thread, p.Label, p.Chosen, p.N))
		}
		d.res.Violations = append(d.res.Violations, DFSViolation{Scenario: d.cfg.Name, Choices: x.Choices(), Message: msg, Labels: labels})
		return
	}
	if x.Failure != "" {
		return // an aborted execution has no meaningful continuation points
	}
	choices := x.Choices()
	cost := used
	// cost of the part of the path that was defaulted is zero (choice 0)
	for i := len(prefix); i < len(x.Points); i++ {
		p := x.Points[i]
		altCost := cost
		if p.Kind == 't' && p.Preempt {
			altCost++
		}
		if d.cfg.Bound >= 0 && altCost > d.cfg.Bound {
			continue
		}
		for alt := 1; alt < p.N; alt++ {
			if d.cfg.Shards > 1 && level == 1 {
				d.n++
				if d.n%d.cfg.Shards != d.cfg.Shard {
					continue
				}
			}
			np := make([]int, i+1)
			copy(np, choices[:i])
			np[i] = alt
			d.explore(np, altCost, level+1)
			if d.stop() {
				return
			}
		}
	}
}
