package engine

import (
	"crypto/sha256"
	"encoding/hex"
	"encoding/json"
	"fmt"
	"os"
	"os/exec"
	"path/filepath"
	"sort"
	"strings"
	"sync"
	"time"
)

// Ctx is what a check receives.
type Ctx struct {
	ID       string
	Tier     string // quick | thorough
	Seed     int64
	Shard    int
	Shards   int
	Deadline time.Time
	Race     bool // running as the free-running race companion
}

func (c *Ctx) Thorough() bool { return c.Tier == "thorough" }

// Mine reports whether case number i belongs to this shard.
func (c *Ctx) Mine(i int) bool { return c.Shards <= 1 || i%c.Shards == c.Shard }

// Expired reports whether the internal deadline passed (the run then ends
// with exhaustive=false and exit 0).
func (c *Ctx) Expired() bool { return !c.Deadline.IsZero() && time.Now().After(c.Deadline) }

// Violation is one failing case.
type Violation struct {
	// Signature identifies the failing input / call site / history class; it
	// is what known_findings.json entries are matched against.
	Signature string `json:"signature"`
	Message   string `json:"message"`
	// Replay is whatever the check needs to re-execute exactly this case.
	Replay any `json:"replay"`
}

// Report accumulates what a run covered. It is mergeable across shards.
type Report struct {
	mu           sync.Mutex
	Evaluations  int64            `json:"evaluations"`
	Distinct     int64            `json:"distinct"`
	States       int64            `json:"states"`
	Transitions  int64            `json:"transitions"`
	Traces       int64            `json:"traces"`
	MaxDepth     int64            `json:"max_depth"`
	Outcomes     map[string]int64 `json:"outcomes"`
	Branches     map[string]int64 `json:"branches"` // vacuity guards: every key must end > 0
	Samples      []any            `json:"samples"`
	Violations   []Violation      `json:"violations"`
	NotExhausted []string         `json:"not_exhausted"` // reasons for exhaustive=false
	Extra        map[string]any   `json:"extra"`
	Infra        []string         `json:"infra"`
}

func NewReport() *Report {
	return &Report{Outcomes: map[string]int64{}, Branches: map[string]int64{}, Extra: map[string]any{}}
}

func (r *Report) Eval(n int64)       { r.mu.Lock(); r.Evaluations += n; r.mu.Unlock() }
func (r *Report) Nontrivial(n int64) { r.mu.Lock(); r.Distinct += n; r.mu.Unlock() }
func (r *Report) Outcome(k string)   { r.mu.Lock(); r.Outcomes[k]++; r.mu.Unlock() }
func (r *Report) Branch(k string)    { r.mu.Lock(); r.Branches[k]++; r.mu.Unlock() }

// Need declares a branch the alphabet is built to reach (vacuity guard).
func (r *Report) Need(keys ...string) {
	r.mu.Lock()
	for _, k := range keys {
		if _, ok := r.Branches[k]; !ok {
			r.Branches[k] = 0
		}
	}
	r.mu.Unlock()
}

func (r *Report) Sample(s any) {
	r.mu.Lock()
	if len(r.Samples) < 4 {
		r.Samples = append(r.Samples, s)
	}
	r.mu.Unlock()
}

func (r *Report) Violate(sig, msg string, replay any) {
	r.mu.Lock()
	defer r.mu.Unlock()
	// keep at most 3 violations per signature and 200 overall
	n := 0
	for _, v := range r.Violations {
		if v.Signature == sig {
			n++
		}
	}
	if n >= 3 || len(r.Violations) >= 200 {
		r.Outcomes["violations-not-kept"]++
		return
	}
	r.Violations = append(r.Violations, Violation{Signature: sig, Message: msg, Replay: replay})
}

func (r *Report) Incomplete(reason string) {
	r.mu.Lock()
	r.NotExhausted = append(r.NotExhausted, reason)
	r.mu.Unlock()
}

func (r *Report) InfraError(msg string) {
	r.mu.Lock()
	r.Infra = append(r.Infra, msg)
	r.mu.Unlock()
}

func (r *Report) Merge(o *Report) {
	r.Evaluations += o.Evaluations
	r.Distinct += o.Distinct
	r.States += o.States
	r.Transitions += o.Transitions
	r.Traces += o.Traces
	if o.MaxDepth > r.MaxDepth {
		r.MaxDepth = o.MaxDepth
	}
	for k, v := range o.Outcomes {
		r.Outcomes[k] += v
	}
	for k, v := range o.Branches {
		r.Branches[k] += v
	}
	for _, s := range o.Samples {
		if len(r.Samples) < 6 {
			r.Samples = append(r.Samples, s)
		}
	}
	r.Violations = append(r.Violations, o.Violations...)
	r.NotExhausted = append(r.NotExhausted, o.NotExhausted...)
	r.Infra = append(r.Infra, o.Infra...)
	for k, v := range o.Extra {
		if a, ok := v.(float64); ok {
			if b, ok := r.Extra[k].(float64); ok {
				r.Extra[k] = a + b
				continue
			}
		}
		if _, ok := r.Extra[k]; !ok {
			r.Extra[k] = v
		}
	}
}

// AddExtra accumulates a numeric coverage key.
func (r *Report) AddExtra(k string, n float64) {
	r.mu.Lock()
	if b, ok := r.Extra[k].(float64); ok {
		r.Extra[k] = b + n
	} else {
		r.Extra[k] = n
	}
	r.mu.Unlock()
}

// ---------------------------------------------------------------------------

// CheckDef describes one property's check.
type CheckDef struct {
	ID          string
	Level       string // evidence level
	Rule        string // how cases are enumerated and what makes one non-trivial
	Assumptions []string
	Binary      string // "clock" (default) or "sched"
	Shards      func(c *Ctx) int
	Run         func(c *Ctx, r *Report)
	// RaceRun is the free-running -race companion (optional).
	RaceRun func(c *Ctx, r *Report)
	// SchedRun is an additional exhaustive phase that runs in the scheduler
	// build (optional; for checks whose main phase runs in the clock build).
	SchedRun    func(c *Ctx, r *Report)
	SchedShards int
	// Replay re-executes one recorded case and returns a description and
	// whether the violation reproduced.
	Replay func(c *Ctx, raw json.RawMessage) (string, bool)
}

var registry = map[string]*CheckDef{}

func Register(d *CheckDef) { registry[d.ID] = d }

func Lookup(id string) *CheckDef { return registry[id] }

func IDs() []string {
	var out []string
	for k := range registry {
		out = append(out, k)
	}
	sort.Strings(out)
	return out
}

// ---------------------------------------------------------------------------
// known findings

type Finding struct {
	Property  string `json:"property"`
	Signature string `json:"signature"` // exact, or prefix when it ends in '*'
	Status    string `json:"status"`    // "known" or "fixed: <commit>"
	What      string `json:"what"`
}

type findingsFile struct {
	Findings []Finding `json:"findings"`
}

func loadFindings(root string) []Finding {
	b, err := os.ReadFile(filepath.Join(root, "known_findings.json"))
	if err != nil {
		return nil
	}
	var f findingsFile
	if err := json.Unmarshal(b, &f); err != nil {
		fmt.Fprintf(os.Stderr, "INFRA: known_findings.json: %v\n", err)
		os.Exit(3)
	}
	return f.Findings
}

func matchFinding(fs []Finding, prop, sig string) *Finding {
	for i := range fs {
		f := &fs[i]
		if f.Property != prop || f.Status != "known" {
			continue
		}
		if f.Signature == sig || (strings.HasSuffix(f.Signature, "*") && strings.HasPrefix(sig, strings.TrimSuffix(f.Signature, "*"))) {
			return f
		}
	}
	return nil
}

// ---------------------------------------------------------------------------
// orchestration

func VerifRoot() string {
	if v := os.Getenv("VERIF_ROOT"); v != "" {
		return v
	}
	return "/verif"
}

func binPath(kind string) string {
	return filepath.Join(VerifRoot(), ".work", "bin", "vcheck-"+kind)
}

type workerOut struct {
	Report *Report `json:"report"`
}

// runWorkers runs the check in `shards` subprocesses of the given binary and
// merges their reports. A worker that dies is a violation (the code under test
// crashed the process) unless it was killed by the infrastructure guard.
func runWorkers(def *CheckDef, c *Ctx, kind string, shards int, race bool, mode ...string) *Report {
	merged := NewReport()
	type res struct {
		i   int
		out []byte
		err error
		log string
	}
	ch := make(chan res, shards)
	logDir := filepath.Join(VerifRoot(), ".work", "logs")
	os.MkdirAll(logDir, 0o755)
	for i := 0; i < shards; i++ {
		go func(i int) {
			args := []string{"worker", def.ID, c.Tier, fmt.Sprint(i), fmt.Sprint(shards), fmt.Sprint(c.Seed), fmt.Sprint(c.Deadline.Unix())}
			if race {
				args = append(args, "race")
			} else if len(mode) > 0 {
				args = append(args, mode[0])
			}
			cmd := exec.Command(binPath(kind), args...)
			logPath := filepath.Join(logDir, fmt.Sprintf("%s-%s-%d.log", def.ID, kind, i))
			lf, _ := os.Create(logPath)
			cmd.Stderr = lf
			cmd.Env = append(os.Environ(), "GOTRACEBACK=all")
			out, err := cmd.Output()
			lf.Close()
			ch <- res{i, out, err, logPath}
		}(i)
	}
	for i := 0; i < shards; i++ {
		r := <-ch
		var wo workerOut
		idx := strings.LastIndex(string(r.out), "\n@@REPORT@@")
		if idx >= 0 {
			if err := json.Unmarshal(r.out[idx+len("\n@@REPORT@@"):], &wo); err != nil {
				idx = -1
			}
		}
		if idx < 0 || wo.Report == nil {
			tail := ""
			if b, err := os.ReadFile(r.log); err == nil {
				s := string(b)
				if len(s) > 6000 {
					s = s[:3000] + "\n...\n" + s[len(s)-3000:]
				}
				tail = s
			}
			if r.err != nil && strings.Contains(r.err.Error(), "signal: killed") && !strings.Contains(tail, "goroutine ") {
				// killed from outside (the kernel's out-of-memory killer, an operator): not a verdict on the code under test
				merged.InfraError(fmt.Sprintf("worker %d of %s was killed from outside (signal: killed; out of memory?)", r.i, def.ID))
				continue
			}
			if race && strings.Contains(tail, "WARNING: DATA RACE") {
				merged.Violate("race:process-died", fmt.Sprintf("race companion worker %d died: %v\n%s", r.i, r.err, tail), map[string]any{"log": r.log})
			} else {
				merged.Violate("crash:worker", fmt.Sprintf("worker %d of %s died without a report (%v): the code under test crashed the process\n%s", r.i, def.ID, r.err, tail), map[string]any{"log": r.log})
			}
			continue
		}
		merged.Merge(wo.Report)
		if race {
			// the race detector prints to stderr and the process goes on
			if b, err := os.ReadFile(r.log); err == nil && strings.Contains(string(b), "WARNING: DATA RACE") {
				s := string(b)
				k := strings.Index(s, "WARNING: DATA RACE")
				e := k + 4000
				if e > len(s) {
					e = len(s)
				}
				merged.Violate("race:"+raceSite(s[k:e]), "data race reported by the race detector in the free-running companion:\n"+s[k:e], map[string]any{"log": r.log})
			}
		}
	}
	return merged
}

// raceSite extracts the first frame inside the module under test.
func raceSite(s string) string {
	for _, ln := range strings.Split(s, "\n") {
		ln = strings.TrimSpace(ln)
		if strings.HasPrefix(ln, "github.com/hashicorp/nodeenrollment/") && !strings.Contains(ln, "zz_verif") {
			if i := strings.LastIndex(ln, "("); i > 0 {
				ln = ln[:i]
			}
			return strings.TrimPrefix(ln, "github.com/hashicorp/nodeenrollment/")
		}
	}
	return "unknown-site"
}

// Main is the entry point shared by the check binaries.
func Main() {
	if len(os.Args) < 2 {
		fmt.Fprintln(os.Stderr, "usage: vcheck run <ID> <quick|thorough> | worker ... | replay <ID> <file> | list")
		os.Exit(2)
	}
	switch os.Args[1] {
	case "list":
		for _, id := range IDs() {
			fmt.Println(id)
		}
	case "worker":
		workerMain()
	case "run":
		os.Exit(runMain())
	case "replay":
		os.Exit(replayMain())
	default:
		fmt.Fprintln(os.Stderr, "unknown command")
		os.Exit(2)
	}
}

func atoi(s string) int64 {
	var n int64
	fmt.Sscan(s, &n)
	return n
}

func workerMain() {
	// worker <ID> <tier> <shard> <shards> <seed> <deadline-unix> [race]
	a := os.Args[2:]
	def := Lookup(a[0])
	if def == nil {
		fmt.Fprintln(os.Stderr, "INFRA: unknown check", a[0])
		os.Exit(3)
	}
	c := &Ctx{ID: a[0], Tier: a[1], Shard: int(atoi(a[2])), Shards: int(atoi(a[3])), Seed: atoi(a[4])}
	if d := atoi(a[5]); d > 0 {
		c.Deadline = time.Unix(d, 0)
	}
	r := NewReport()
	if len(a) > 6 && a[6] == "race" {
		c.Race = true
		def.RaceRun(c, r)
	} else if len(a) > 6 && a[6] == "schedphase" {
		def.SchedRun(c, r)
	} else {
		def.Run(c, r)
	}
	b, err := json.Marshal(workerOut{Report: r})
	if err != nil {
		fmt.Fprintln(os.Stderr, "INFRA: cannot marshal report:", err)
		os.Exit(3)
	}
	fmt.Printf("\n@@REPORT@@%s", b)
}

func replayMain() int {
	if len(os.Args) < 4 {
		fmt.Fprintln(os.Stderr, "usage: replay <ID> <file>")
		return 2
	}
	def := Lookup(os.Args[2])
	if def == nil || def.Replay == nil {
		fmt.Fprintln(os.Stderr, "no replay for", os.Args[2])
		return 2
	}
	b, err := os.ReadFile(os.Args[3])
	if err != nil {
		fmt.Fprintln(os.Stderr, err)
		return 2
	}
	var f struct {
		Property  string          `json:"property"`
		Signature string          `json:"signature"`
		Message   string          `json:"message"`
		Replay    json.RawMessage `json:"replay"`
	}
	if err := json.Unmarshal(b, &f); err != nil {
		fmt.Fprintln(os.Stderr, err)
		return 2
	}
	fmt.Printf("replaying %s signature=%s\nrecorded: %s\n", f.Property, f.Signature, f.Message)
	msg, bad := def.Replay(&Ctx{ID: def.ID, Tier: "quick", Shards: 1}, f.Replay)
	fmt.Println(msg)
	if bad {
		fmt.Printf("VIOLATION property=%s replay=%s\n", def.ID, os.Args[3])
		return 1
	}
	fmt.Println("replay: no violation on the current tree")
	return 0
}

func runMain() int {
	if len(os.Args) < 4 {
		fmt.Fprintln(os.Stderr, "usage: run <ID> <quick|thorough>")
		return 2
	}
	id, tier := os.Args[2], os.Args[3]
	def := Lookup(id)
	if def == nil {
		fmt.Fprintln(os.Stderr, "INFRA: unknown check", id)
		return 3
	}
	start := time.Now()
	c := &Ctx{ID: id, Tier: tier, Seed: 1, Shards: 1}
	if s := os.Getenv("VERIF_SEED"); s != "" {
		c.Seed = atoi(s)
	}
	budget := 8 * time.Minute
	if tier == "thorough" {
		budget = 45 * time.Minute
	}
	if s := os.Getenv("VERIF_BUDGET_S"); s != "" {
		budget = time.Duration(atoi(s)) * time.Second
	}
	c.Deadline = start.Add(budget)
	shards := 1
	if def.Shards != nil {
		shards = def.Shards(c)
	}
	kind := def.Binary
	if kind == "" {
		kind = "clock"
	}
	rep := runWorkers(def, c, kind, shards, false)
	if def.SchedRun != nil {
		n := def.SchedShards
		if n < 1 {
			n = 1
		}
		rep.Merge(runWorkers(def, c, "sched", n, false, "schedphase"))
	}
	if def.RaceRun != nil && os.Getenv("VERIF_NO_RACE") == "" {
		rr := runWorkers(def, c, "race", 1, true)
		rep.Extra["race_companion_runs"] = float64(rr.Evaluations)
		rep.Extra["race_companion_note"] = "free-running -race pass of the same harness bodies on the un-rewritten code; sampling, not the deciding step"
		rep.Violations = append(rep.Violations, rr.Violations...)
		rep.Infra = append(rep.Infra, rr.Infra...)
		// cross-build agreement: an outcome the real code produced free-running
		// ("free:" keys) should be one the explorer reached on the rewritten code
		unseen := []string{}
		for k, v := range rr.Outcomes {
			if strings.HasPrefix(k, "free:") {
				if _, ok := rep.Outcomes[strings.TrimPrefix(k, "free:")]; !ok {
					unseen = append(unseen, k)
				}
				continue
			}
			rep.Outcomes["race:"+k] += v
		}
		sort.Strings(unseen)
		rep.Extra["free_run_outcomes_not_reached_by_explorer"] = unseen
	}
	return finish(def, c, rep, time.Since(start))
}

func finish(def *CheckDef, c *Ctx, rep *Report, wall time.Duration) int {
	root := VerifRoot()
	findings := loadFindings(root)
	exit := 0
	knownSeen := map[string]bool{}
	var unlisted, known int
	os.MkdirAll(filepath.Join(root, "replays"), 0o755)
	sort.SliceStable(rep.Violations, func(i, j int) bool { return rep.Violations[i].Signature < rep.Violations[j].Signature })
	printed := map[string]int{}
	for _, v := range rep.Violations {
		if f := matchFinding(findings, def.ID, v.Signature); f != nil {
			known++
			if !knownSeen[f.Signature] {
				knownSeen[f.Signature] = true
				fmt.Printf("KNOWN-FINDING: property=%s %s [%s]\n", def.ID, f.What, f.Signature)
			}
			continue
		}
		unlisted++
		exit = 1
		if printed[v.Signature] >= 2 {
			continue
		}
		printed[v.Signature]++
		h := sha256.Sum256([]byte(v.Signature + "\x00" + v.Message))
		name := fmt.Sprintf("%s-%s.json", def.ID, hex.EncodeToString(h[:5]))
		p := filepath.Join(root, "replays", name)
		b, _ := json.MarshalIndent(map[string]any{"property": def.ID, "signature": v.Signature, "message": v.Message, "replay": v.Replay, "tier": c.Tier, "seed": c.Seed}, "", " ")
		os.WriteFile(p, b, 0o644)
		first := v.Message
		if i := strings.Index(first, "\n"); i > 0 {
			first = first[:i]
		}
		fmt.Printf("VIOLATION property=%s replay=%s\n  signature: %s\n  %s\n", def.ID, p, v.Signature, first)
	}
	// vacuity guards
	var vac []string
	for k, n := range rep.Branches {
		if n == 0 {
			vac = append(vac, k)
		}
	}
	sort.Strings(vac)
	exhaustive := len(rep.NotExhausted) == 0
	cov := map[string]any{
		"evaluations":         rep.Evaluations,
		"distinct_nontrivial": rep.Distinct,
		"rule":                def.Rule,
		"samples":             rep.Samples,
		"exhaustive":          exhaustive,
		"outcomes":            rep.Outcomes,
		"branches_reached":    rep.Branches,
	}
	if rep.States > 0 || def.Level == "model_checking" {
		cov["states"] = rep.States
		cov["transitions"] = rep.Transitions
		cov["traces_validated_against_impl"] = rep.Traces
		cov["max_depth"] = rep.MaxDepth
	}
	if !exhaustive {
		cov["not_exhaustive_because"] = rep.NotExhausted
	}
	for k, v := range rep.Extra {
		cov[k] = v
	}
	if len(rep.Samples) == 0 {
		cov["samples"] = []any{"(no sample recorded)"}
	}
	ev := map[string]any{
		"property_id":               def.ID,
		"tier":                      c.Tier,
		"seed":                      c.Seed,
		"level":                     def.Level,
		"coverage":                  cov,
		"assumptions":               def.Assumptions,
		"wall_s":                    wall.Seconds(),
		"violations":                unlisted,
		"known_findings_reproduced": known,
	}
	b, _ := json.MarshalIndent(ev, "", " ")
	os.MkdirAll(filepath.Join(root, "evidence"), 0o755)
	if err := os.WriteFile(filepath.Join(root, "evidence", def.ID+".json"), b, 0o644); err != nil {
		fmt.Fprintln(os.Stderr, "INFRA: cannot write evidence:", err)
		return 3
	}
	fmt.Printf("%s %s: evaluations=%d distinct_nontrivial=%d states=%d transitions=%d exhaustive=%v violations=%d known=%d wall=%.1fs\n",
		def.ID, c.Tier, rep.Evaluations, rep.Distinct, rep.States, rep.Transitions, exhaustive, unlisted, known, wall.Seconds())
	if len(rep.Infra) > 0 {
		for _, m := range rep.Infra {
			fmt.Fprintln(os.Stderr, "INFRA:", m)
		}
		if exit == 0 {
			return 3
		}
	}
	if len(vac) > 0 && exit == 0 && exhaustive {
		fmt.Fprintf(os.Stderr, "INFRA: vacuity guard: branches never reached: %v\n", vac)
		return 3
	}
	return exit
}

func (r *Report) tooMany() bool {
	r.mu.Lock()
	defer r.mu.Unlock()
	return len(r.Violations) >= 20
}
