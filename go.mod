module verif

go 1.21

require (
	github.com/anishathalye/porcupine v1.3.0
	github.com/hashicorp/go-hclog v1.6.2
	github.com/hashicorp/go-kms-wrapping/v2 v2.0.16
	github.com/hashicorp/nodeenrollment v0.0.0
	github.com/mr-tron/base58 v1.2.0
	google.golang.org/protobuf v1.33.0
)

require (
	github.com/armon/go-radix v1.0.0 // indirect
	github.com/davecgh/go-spew v1.1.1 // indirect
	github.com/fatih/color v1.13.0 // indirect
	github.com/hashicorp/go-uuid v1.0.3 // indirect
	github.com/mattn/go-colorable v0.1.12 // indirect
	github.com/mattn/go-isatty v0.0.14 // indirect
	github.com/pmezard/go-difflib v1.0.0 // indirect
	github.com/sethvargo/go-diceware v0.3.0 // indirect
	github.com/stretchr/testify v1.8.4 // indirect
	golang.org/x/crypto v0.31.0 // indirect
	golang.org/x/sys v0.28.0 // indirect
	gopkg.in/yaml.v3 v3.0.1 // indirect
)

replace github.com/hashicorp/nodeenrollment => /repo
